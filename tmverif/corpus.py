"""Self-test corpus: source edits of the current tree (see selftest.py).

expect = VIOLATION : breaking edit, the property's check must report it (rule/func narrow what must be named)
expect = HOLDS     : behaviour-preserving edit, the check must stay silent
"""
E = "tangermeme/ersatz.py"
CORPUS = []


def case(pid, cid, expect, edits, rule=None, func=None, note=""):
    CORPUS.append({"property": pid, "id": cid, "expect": expect, "rule": rule, "func": func, "note": note,
                   "edits": [({"file": e[0], "from_commit": e[1][1:]} if e[1].startswith("@") and len(e) == 2 else
                              {"file": e[0], "old": e[1], "new": e[2]}) for e in edits]})


def prefix(pid, cid, file, commit, rule=None, func=None):
    """the file as it was before the fix: commit `commit` (defect replay)"""
    case(pid, cid, "VIOLATION", [(file, "@" + commit + "^")], rule, func, note="pre-fix state of " + commit)


# ------------------------------------------------------------------ C01
SUB_GUARD = "\t\tif start < 0 or start > (X.shape[-1] - motif.shape[-1]):\n\t\t\traise ValueError(\"Provided start falls off the end of the sequence\")\n\telse:\n\t\tstart = X.shape[-1] // 2 - motif.shape[-1] // 2"
case("C01", "sub-drop-neg-guard", "VIOLATION", [(E, SUB_GUARD, SUB_GUARD.replace("start < 0 or ", ""))], "R-GUARD", "ersatz.substitute")
case("C01", "sub-guard-L-not-L-m", "VIOLATION", [(E, SUB_GUARD, SUB_GUARD.replace("start > (X.shape[-1] - motif.shape[-1])", "start > X.shape[-1]"))], "R-GUARD", "ersatz.substitute")
case("C01", "sub-guard-clip", "VIOLATION", [(E, SUB_GUARD, SUB_GUARD.replace("raise ValueError(\"Provided start falls off the end of the sequence\")", "start = max(start, 0)"))], "R-GUARD", "ersatz.substitute")
case("C01", "sub-no-clone", "VIOLATION", [(E, "\tX = torch.clone(X)\n\tX[:, :, start:start+n] = motif", "\tX[:, :, start:start+n] = motif")], "R-PURE", "ersatz.substitute")
case("C01", "sub-store-off-by-one", "VIOLATION", [(E, "X[:, :, start:start+n] = motif", "X[:, :, start:start+n-1] = motif[:, :, :-1]")], None, "ersatz.substitute")
case("C01", "sub-default-start-wrong", "VIOLATION", [(E, "start = X.shape[-1] // 2 - motif.shape[-1] // 2\n\n\n\tn", "start = X.shape[-1] // 2 + motif.shape[-1] // 2\n\n\n\tn")], "R-GUARD", "ersatz.substitute")
case("C01", "sub-validate-after", "VIOLATION", [(E, "\t_validate_input(X, \"X\", ohe=True)\n\t_validate_input(motif, \"motif\", shape=(-1, X.shape[1], -1), ohe=True)\n\n\tif motif.shape[-1] > X.shape[-1]:", "\t_validate_input(X, \"X\", ohe=True)\n\n\tif motif.shape[-1] > X.shape[-1]:")], "MUST-VALIDATE", "ersatz.substitute")
case("C01", "sub-equiv-guard", "HOLDS", [(E, SUB_GUARD, SUB_GUARD.replace("start < 0 or start > (X.shape[-1] - motif.shape[-1])", "not (0 <= start <= X.shape[-1] - motif.shape[-1])"))])
case("C01", "sub-split-guard", "HOLDS", [(E, SUB_GUARD, "\t\tif start < 0:\n\t\t\traise ValueError(\"neg\")\n\t\tif start + motif.shape[-1] > X.shape[-1]:\n\t\t\traise ValueError(\"Provided start falls off the end of the sequence\")\n\telse:\n\t\tstart = X.shape[-1] // 2 - motif.shape[-1] // 2")])
case("C01", "sub-clone-method", "HOLDS", [(E, "\tX = torch.clone(X)\n\tX[:, :, start:start+n] = motif", "\tX_out = X.clone()\n\tend_ = start + motif.shape[-1]\n\tX_out[:, :, start:end_] = motif\n\tX = X_out")])
INS_RET = "return torch.cat([X[:, :, :start], motif, X[:, :, start:]], dim=-1)"
case("C01", "ins-swap-pieces", "VIOLATION", [(E, INS_RET, "return torch.cat([X[:, :, start:], motif, X[:, :, :start]], dim=-1)")], "R-LEN", "ersatz.insert")
case("C01", "ins-overwrite", "VIOLATION", [(E, INS_RET, "return torch.cat([X[:, :, :start], motif, X[:, :, start+1:]], dim=-1)")], "R-LEN", "ersatz.insert")
case("C01", "ins-no-neg-guard", "VIOLATION", [(E, "\tif start is not None:\n\t\tif start < 0 or start > X.shape[-1]:\n\t\t\traise ValueError(\"Provided start falls off the end of the sequence\")\n\telse:\n\t\tstart = X.shape[-1] // 2\n", "\tif start is not None:\n\t\tif start > X.shape[-1]:\n\t\t\traise ValueError(\"Provided start falls off the end of the sequence\")\n\telse:\n\t\tstart = X.shape[-1] // 2\n")], "R-GUARD", "ersatz.insert")
case("C01", "ins-local-names", "HOLDS", [(E, INS_RET, "left, right = X[:, :, :start], X[:, :, start:]\n\treturn torch.cat([left, motif, right], dim=-1)")], note="pieces through locals: composition rule must follow the locals or stay silent")
DEL_G = "\tif end < 0 or end > X.shape[-1] or end <= start:"
case("C01", "del-end-le", "VIOLATION", [(E, DEL_G, "\tif end < 0 or end > X.shape[-1] + 1 or end <= start:")], "R-GUARD", "ersatz.delete")
case("C01", "del-no-order", "VIOLATION", [(E, DEL_G, "\tif end < 0 or end > X.shape[-1]:")], "R-GUARD", "ersatz.delete")
case("C01", "del-keep-end", "VIOLATION", [(E, "return torch.cat([X[:, :, :start], X[:, :, end:]], dim=-1)", "return torch.cat([X[:, :, :start], X[:, :, end-1:]], dim=-1)")], "R-LEN", "ersatz.delete")
case("C01", "rand-wrong-start", "VIOLATION", [(E, "X_rand = substitute(X, substitute_ohe, start=start)", "X_rand = substitute(X, substitute_ohe, start=start+1)")], "R-GUARD", "ersatz.randomize")
case("C01", "rand-wrong-width", "VIOLATION", [(E, "probs.shape[1], end-start)", "probs.shape[1], end-start+1)")], "R-GUARD", "ersatz.randomize")
case("C01", "multi-advance-no-spacing", "VIOLATION", [(E, "start += motif_lengths[i] + spacing[i]", "start += motif_lengths[i]")], "R-LEN", "ersatz.multisubstitute")
case("C01", "multi-advance-wrong-index", "VIOLATION", [(E, "start += motif_lengths[i] + spacing[i]", "start += motif_lengths[i] + spacing[0]")], "R-LEN", "ersatz.multisubstitute")
case("C01", "multi-advance-equiv", "HOLDS", [(E, "start += motif_lengths[i] + spacing[i]", "start = start + spacing[i] + motif_lengths[i]")])
case("C01", "multi-spacing-guard", "VIOLATION", [(E, "if l < 0 or l >= X.shape[-1]:", "if l >= X.shape[-1]:")], "R-GUARD", "ersatz.multisubstitute")

# ------------------------------------------------------------------ C07
D = "tangermeme/deep_lift_shap.py"
P = "tangermeme/predict.py"
prefix("C07", "D1-prefix-hooks-leak", D, "71f7994", "R-RELEASE", "deep_lift_shap.deep_lift_shap")
FIN = "\tfinally:\n\t\tmodel.apply(_clear_hooks)\n\t\tfor module in model.modules():\n\t\t\tdel(module._NON_LINEAR_OPS)\n"
case("C07", "finally-to-narrow-except", "VIOLATION", [(D, FIN, "\texcept ValueError as e:\n\t\tmodel.apply(_clear_hooks)\n\t\traise(e)\n\tmodel.apply(_clear_hooks)\n")], "R-RELEASE")
case("C07", "finally-without-clear", "VIOLATION", [(D, FIN, "\tfinally:\n\t\tfor module in model.modules():\n\t\t\tdel(module._NON_LINEAR_OPS)\n")], "R-RELEASE")
case("C07", "finally-to-except-reraise", "HOLDS", [(D, FIN, "\texcept Exception as e:\n\t\tmodel.apply(_clear_hooks)\n\t\traise e\n\tmodel.apply(_clear_hooks)\n\tfor module in model.modules():\n\t\tdel(module._NON_LINEAR_OPS)\n")])
case("C07", "early-return-held", "VIOLATION", [(D, "\tattributions, references_, Xi, rj, attr_ = [], [], [], [], []", "\tattributions, references_, Xi, rj, attr_ = [], [], [], [], []\n\tif X.shape[0] == 0:\n\t\tmodel.apply(_register_hooks)\n\t\treturn X")], "R-RELEASE")
case("C07", "clear-skips-last-handle", "VIOLATION", [(D, "for handle in module.handles:", "for handle in module.handles[:-1]:")], "HOOK-PAIRING")
case("C07", "register-unrecorded-hook", "VIOLATION", [(D, "\tmodule.handles.append(module.register_full_backward_hook(_b_hook))", "\tmodule.register_full_backward_hook(_b_hook)")], "HOOK-PAIRING")
case("C07", "predict-train-after", "VIOLATION", [(P, "\tif isinstance(y[0], torch.Tensor):\n\t\ty = torch.cat(y)", "\tmodel.train()\n\tif isinstance(y[0], torch.Tensor):\n\t\ty = torch.cat(y)")], "R-MODEL", "predict.predict")
case("C07", "predict-no-eval", "VIOLATION", [(P, "model = model.to(device).eval()", "model = model.to(device)")], "R-EVAL")
case("C07", "predict-no-nograd", "VIOLATION", [(P, "with torch.no_grad():", "with torch.enable_grad():")], "R-NOGRAD")
case("C07", "predict-eval-separate", "HOLDS", [(P, "model = model.to(device).eval()", "model = model.to(device)\n\tmodel.eval()")])
case("C07", "dls-backward", "VIOLATION", [(D, "multipliers = torch.autograd.grad(y.sum(), _X)[0]", "y.sum().backward()\n\t\t\t\t\t\tmultipliers = _X.grad")], "R-MODEL")
case("C07", "dls-zero-grad", "VIOLATION", [(D, "\tmodel = model.to(device).eval()\n\tfor module in model.modules():", "\tmodel = model.to(device).eval()\n\tmodel.zero_grad()\n\tfor module in model.modules():")], "R-MODEL")
case("C07", "dls-requires-grad-off", "VIOLATION", [(D, "\tmodel = model.to(device).eval()\n\tfor module in model.modules():", "\tmodel = model.to(device).eval()\n\tfor p in model.parameters():\n\t\tp.requires_grad_(False)\n\tfor module in model.modules():")], "R-MODEL")
case("C07", "design-float-cast", "VIOLATION", [("tangermeme/design.py", "\ttic = time.time()\n\titeration = 0", "\ttic = time.time()\n\tmodel = model.float()\n\titeration = 0")], "R-MODEL")

# ------------------------------------------------------------------ C03
case("C03", "args-window-shift", "VIOLATION", [(P, "args_ = [a[start:end].to(device) for a in args]", "args_ = [a[start:end+1].to(device) for a in args]")], "R-ARGWIN")
case("C03", "args-fixed-window", "VIOLATION", [(P, "args_ = [a[start:end].to(device) for a in args]", "args_ = [a[:batch_size].to(device) for a in args]")], "R-ARGWIN")
case("C03", "args-not-windowed", "VIOLATION", [(P, "args_ = [a[start:end].to(device) for a in args]", "args_ = [a.to(device) for a in args]")], "R-ARGWIN")
case("C03", "x-window-short", "VIOLATION", [(P, "end = start + batch_size", "end = start + batch_size - 1")], "R-ARGWIN")
case("C03", "loop-starts-at-1", "VIOLATION", [(P, "trange(0, X.shape[0], batch_size", "trange(1, X.shape[0], batch_size")], "R-ARGWIN")
case("C03", "loop-stops-early", "VIOLATION", [(P, "trange(0, X.shape[0], batch_size", "trange(0, X.shape[0] - 1, batch_size")], "R-ARGWIN")
case("C03", "order-insert-front", "VIOLATION", [(P, "\t\t\ty.append(y_)", "\t\t\ty.insert(0, y_)")], "ORDER")
case("C03", "order-cat-dim1", "VIOLATION", [(P, "\t\ty = torch.cat(y)\n", "\t\ty = torch.cat(y, dim=1)\n")], "ORDER")
case("C03", "order-conditional-append", "VIOLATION", [(P, "\t\t\ty.append(y_)", "\t\t\tif start > 0 or len(y) == 0:\n\t\t\t\ty.append(y_)")], "ORDER")
case("C03", "argscheck-removed", "VIOLATION", [(P, "\t\t\tif arg.shape[0] != X.shape[0]:\n\t\t\t\traise ValueError(\"Arguments must have the same first \" +\n\t\t\t\t\t\"dimension as X\")", "\t\t\tpass")], "ARGS-CHECK")
case("C03", "argscheck-first-only", "VIOLATION", [(P, "\t\tfor arg in args:\n\t\t\tif arg.shape[0] != X.shape[0]:", "\t\tfor arg in args[:1]:\n\t\t\tif arg.shape[0] != X.shape[0]:")], "ARGS-CHECK")
case("C03", "args-reversed", "VIOLATION", [(P, "y_ = model(X_, *args_)", "y_ = model(X_, *reversed(args_))")], "R-ARGWIN")
case("C03", "x-clone-input-write", "VIOLATION", [(P, "X_ = X[start:end].to(device).type(dtype)", "X_ = X[start:end]\n\t\t\tX_ *= 1\n\t\t\tX_ = X_.to(device).type(dtype)")], "R-PURE")
case("C03", "slice-object-shared", "HOLDS", [(P, "end = start + batch_size\n\t\t\tX_ = X[start:end].to(device).type(dtype)", "end = batch_size + start\n\t\t\tX_ = X[start:end].type(dtype).to(device)")])
case("C03", "end-inline", "HOLDS", [(P, "args_ = [a[start:end].to(device) for a in args]", "args_ = [a[start:start + batch_size].to(device) for a in args]")])
case("C03", "no-eval", "VIOLATION", [(P, "model = model.to(device).eval()", "model = model.to(device)")], "R-EVAL")

# ------------------------------------------------------------------ C09
I = "tangermeme/ism.py"
prefix("C09", "D3-prefix-tuple-reshape", I, "5d2d112", "R-AXES", "ism.saturation_mutagenesis")
case("C09", "tensor-branch-transposed", "VIOLATION", [(I, "y_hat = torch.stack(y_hat).reshape(X.shape[0], X.shape[1], end-start, \n\t\t\t*y_hat_.shape[1:])", "y_hat = torch.stack(y_hat).reshape(X.shape[0], end-start, X.shape[1], \n\t\t\t*y_hat_.shape[1:]).transpose(1, 2)")], "R-AXES")
case("C09", "product-swapped", "VIOLATION", [(I, "coords = itertools.product(range(X.shape[0]), range(start, end))\n\tfor i, (j, k) in enumerate(coords):", "coords = itertools.product(range(start, end), range(X.shape[0]))\n\tfor i, (k, j) in enumerate(coords):")], "R-AXES")
case("C09", "product-swapped-consistent", "HOLDS", [(I, "coords = itertools.product(range(X.shape[0]), range(start, end))\n\tfor i, (j, k) in enumerate(coords):", "coords = itertools.product(range(start, end), range(X.shape[0]))\n\tfor i, (k, j) in enumerate(coords):"),
      (I, "y_hat = torch.stack(y_hat).reshape(X.shape[0], X.shape[1], end-start, \n\t\t\t*y_hat_.shape[1:])", "y_hat = torch.stack(y_hat).reshape(X.shape[0], end-start, X.shape[1], \n\t\t\t*y_hat_.shape[1:]).transpose(1, 2)"),
      (I, "torch.cat(y_).reshape(X.shape[0], X.shape[1], end-start, \n\t\t\t\t*y_[0].shape[1:]) for y_ in zip(*y_hat)", "torch.cat(y_).reshape(X.shape[0], end-start, X.shape[1], \n\t\t\t\t*y_[0].shape[1:]).transpose(1, 2) for y_ in zip(*y_hat)")])
case("C09", "window-ignored-in-reshape", "VIOLATION", [(I, "torch.cat(y_).reshape(X.shape[0], X.shape[1], end-start, \n\t\t\t\t*y_[0].shape[1:]) for y_ in zip(*y_hat)", "torch.cat(y_).reshape(X.shape[0], X.shape[1], X.shape[2], \n\t\t\t\t*y_[0].shape[1:]) for y_ in zip(*y_hat)")], None, "ism.saturation_mutagenesis")
case("C09", "mutant-no-zeroing", "VIOLATION", [(I, "\t\tX_[i, :, k] = 0\n", "")], "MUTANT")
case("C09", "args-wrong-row", "VIOLATION", [(I, "a[i].repeat(X_.shape[0], *(1 for _ in a[i].shape))", "a[0].repeat(X_.shape[0], *(1 for _ in a[0].shape))")], "ARGS")
case("C09", "y0-without-args", "VIOLATION", [(I, "y0 = predict(model, X, args=args, device=device)", "y0 = predict(model, X, args=None, device=device)")], "ROLE")
case("C09", "attr-center-wrong-axis", "VIOLATION", [(I, "attr -= torch.mean(attr, dim=1, keepdims=True)", "attr -= torch.mean(attr, dim=2, keepdims=True)")], "R-TERM")
case("C09", "attr-sign-flipped", "VIOLATION", [(I, "attr = y_hat[:, :, :, target] - y0[:, None, None, target]", "attr = y0[:, None, None, target] - y_hat[:, :, :, target]")], "R-TERM")
case("C09", "attr-equivalent-spelling", "HOLDS", [(I, "attr -= torch.mean(attr, dim=1, keepdims=True)", "attr = attr - attr.mean(dim=1, keepdim=True)")])
case("C09", "mask-inverted", "VIOLATION", [(I, "return X[:, :, start:end] * attr if hypothetical == False else attr", "return X[:, :, start:end] * attr if hypothetical == True else attr")], "MASK")
case("C09", "mask-whole-x", "VIOLATION", [(I, "return X[:, :, start:end] * attr if hypothetical == False else attr", "return X[:, :, start:] * attr if hypothetical == False else attr")], "MASK")
case("C09", "count-off", "VIOLATION", [(I, "X_ = X.repeat((end-start)*X.shape[0], 1, 1)", "X_ = X.repeat((end-start)*X.shape[0] + 1, 1, 1)")], "COUNT")

# ------------------------------------------------------------------ C08
AB = "tangermeme/ablate.py"; MG = "tangermeme/marginalize.py"; SP = "tangermeme/space.py"; PR = "tangermeme/product.py"
prefix("C08", "D2-prefix-ablate-annotations", AB, "e41acab", "R-DIMCONF", "ablate.ablate_annotations")
prefix("C08", "D2-prefix-marginalize-annotations", MG, "e41acab", "R-DIMCONF", "marginalize.marginalize_annotations")
case("C08", "ablate-args-repeat", "VIOLATION", [(AB, "a.repeat_interleave(n, dim=0)", "a.repeat(n, *(1 for _ in a.shape[1:]))")], "R-ARGWIN", "ablate.ablate")
case("C08", "ablate-args-nodim", "VIOLATION", [(AB, "a.repeat_interleave(n, dim=0)", "a.repeat_interleave(n)")], "R-ARGWIN", "ablate.ablate")
case("C08", "ablate-unflatten-swapped", "VIOLATION", [(AB, "y_after = y_after.reshape(*X_perturb.shape[:2], *y_after.shape[1:])", "y_after = y_after.reshape(X_perturb.shape[1], X_perturb.shape[0], *y_after.shape[1:]).transpose(0, 1)")], "R-AXES", "ablate.ablate")
case("C08", "ablate-before-on-perturbed", "VIOLATION", [(AB, "y_before = func(model, X, args=args, **kwargs, **additional_func_kwargs)", "y_before = func(model, X_perturb[:, 0], args=args, **kwargs, **additional_func_kwargs)")], "ROLE", "ablate.ablate")
case("C08", "ablate-end-shift", "VIOLATION", [(AB, "X_perturb = shuffle_fn(X, start=start, end=end, n=n, ", "X_perturb = shuffle_fn(X, start=start, end=end+1, n=n, ")], "ROLE", "ablate.ablate")
case("C08", "ablate-after-args-orig", "VIOLATION", [(AB, "\t\targs=args_n, **kwargs, **additional_func_kwargs)", "\t\targs=args, **kwargs, **additional_func_kwargs)")], "R-ARGWIN", "ablate.ablate")
case("C08", "ablate-ann-wrong-example", "VIOLATION", [(AB, "ablate(model, X[idx:idx+1], start=start, end=end,", "ablate(model, X[:1], start=start, end=end,")], "ROLE", "ablate.ablate_annotations")
case("C08", "marg-start-dropped", "VIOLATION", [(MG, "X_perturb = substitute(X, motif, start=start, alphabet=alphabet)", "X_perturb = substitute(X, motif, alphabet=alphabet)")], "ROLE", "marginalize.marginalize")
case("C08", "marg-swapped-return", "VIOLATION", [(MG, "\treturn y_before, y_after\n\n\ndef", "\treturn y_after, y_before\n\n\ndef")], "ROLE", "marginalize.marginalize")
case("C08", "marg-ann-span", "VIOLATION", [(MG, "seq = X[idx, :, start:end].unsqueeze(0)", "seq = X[idx, :, start:end+1].unsqueeze(0)")], "ROLE", "marginalize.marginalize_annotations")
case("C08", "space-no-transpose-list", "VIOLATION", [(SP, "y_afters = [torch.stack(y_).transpose(0, 1) for y_ in list(zip(\n\t\t\t*y_afters))]", "y_afters = [torch.stack(y_) for y_ in list(zip(\n\t\t\t*y_afters))]")], "R-AXES", "space.space")
case("C08", "space-stack-dim1", "HOLDS", [(SP, "y_befores = torch.stack(y_befores).transpose(0, 1)", "y_befores = torch.stack(y_befores, dim=1)")])
case("C08", "space-start-dropped", "VIOLATION", [(SP, "X_perturb = multisubstitute(X, motifs, _spacing, start=start, \n\t\t\talphabet=alphabet)", "X_perturb = multisubstitute(X, motifs, _spacing, \n\t\t\talphabet=alphabet)")], "ROLE", "space.space")
case("C08", "space-first-spacing-only", "VIOLATION", [(SP, "_spacing = [s.item() for s in _spacing]", "_spacing = [s.item() for s in spacing[0]]")], "ROLE", "space.space")
case("C08", "product-xal-swapped", "VIOLATION", [(PR, "Xal = [len(X), len(args[0])]", "Xal = [len(args[0]), len(X)]")], "R-AXES", "product.apply_pairwise")
case("C08", "product-order-swapped", "VIOLATION", [(PR, "itertools.product(X, *args)", "itertools.product(*args, X)")], None, "product.apply_product")
case("C08", "product-no-flush", "VIOLATION", [(PR, "\telse:\n\t\tif len(X_) > 0:\n\t\t\ty_ = _apply(func, model, X_, args=args_, batch_size=batch_size, \n\t\t\t\tdevice=device, verbose=verbose,\n\t\t\t\tadditional_func_kwargs=additional_func_kwargs, **kwargs)\n\t\t\ty.append(y_)\n", "")], "R-FLUSH", "product.apply_product")
case("C08", "product-reset-only-x", "VIOLATION", [(PR, "\t\t\tX_, args_ = [], [[] for _ in args]\n\telse:\n\t\tif len(X_) > 0:\n\t\t\ty_ = _apply(func, model, X_, args=args_, batch_size=batch_size, \n\t\t\t\tdevice=device, verbose=verbose, \n", "\t\t\tX_ = []\n\telse:\n\t\tif len(X_) > 0:\n\t\t\ty_ = _apply(func, model, X_, args=args_, batch_size=batch_size, \n\t\t\t\tdevice=device, verbose=verbose, \n")], "R-FLUSH", "product.apply_pairwise")

# ------------------------------------------------------------------ C18
AN = "tangermeme/annotate.py"
prefix("C18", "D14-prefix-spacing-guard", AN, "082fd84", "R-GUARD", "annotate.pairwise_annotations_spacing")
case("C18", "spacing-guard-le", "VIOLATION", [(AN, "\t\t\t\t\td = start1 - end0\n\t\t\t\t\tif d < 0 or d >= max_distance:", "\t\t\t\t\td = start1 - end0\n\t\t\t\t\tif d < 0 or d > max_distance:")], "R-GUARD")
case("C18", "spacing-guard-noneg-else", "VIOLATION", [(AN, "\t\t\t\t\td = start0 - end1\n\t\t\t\t\tif d < 0 or d >= max_distance:", "\t\t\t\t\td = start0 - end1\n\t\t\t\t\tif d >= max_distance:")], "R-GUARD")
case("C18", "spacing-wrong-distance", "VIOLATION", [(AN, "d = start1 - end0", "d = start1 - start0")], "R-SIB")
case("C18", "spacing-else-not-mirrored", "VIOLATION", [(AN, "\t\t\t\t\ty[idx1, idx0, d] += 1\n\t\t\t\t\tif symmetric and idx0 != idx1:\n\t\t\t\t\t\ty[idx0, idx1, d] += 1 ", "\t\t\t\t\ty[idx0, idx1, d] += 1\n\t\t\t\t\tif symmetric and idx0 != idx1:\n\t\t\t\t\t\ty[idx1, idx0, d] += 1 ")], "R-SIB")
case("C18", "spacing-guard-equiv", "HOLDS", [(AN, "\t\t\t\t\td = start1 - end0\n\t\t\t\t\tif d < 0 or d >= max_distance:", "\t\t\t\t\td = start1 - end0\n\t\t\t\t\tif not (0 <= d < max_distance):"), (AN, "\t\t\t\t\td = start0 - end1\n\t\t\t\t\tif d < 0 or d >= max_distance:", "\t\t\t\t\td = start0 - end1\n\t\t\t\t\tif not (0 <= d < max_distance):")])
case("C18", "pairs-inner-from-i", "VIOLATION", [(AN, "\t\t\tfor j, idx1 in enumerate(annotations[i+1:]):\n\t\t\t\ty[idx0, idx1] += 1", "\t\t\tfor j, idx1 in enumerate(annotations[i:]):\n\t\t\t\ty[idx0, idx1] += 1")], "PAIRS")
case("C18", "pairs-diagonal-doubled", "VIOLATION", [(AN, "\t\t\t\tif symmetric and idx0 != idx1:\n\t\t\t\t\ty[idx1, idx0] += 1", "\t\t\t\tif symmetric:\n\t\t\t\t\ty[idx1, idx0] += 1")], "R-SIB")
case("C18", "count-stride-examples", "VIOLATION", [(AN, "X_idxs = X[:, 0] * n_annotations + X[:, 1]", "X_idxs = X[:, 0] * n_examples + X[:, 1]")], "R-AXES")
case("C18", "count-dim-swapped", "VIOLATION", [(AN, "y.scatter_add_(0, X[:, 1], X_ones)", "y.scatter_add_(0, X[:, 0], X_ones)")], "R-SIB")

# ------------------------------------------------------------------ C10
V = "tangermeme/variant_effect.py"
prefix("C10", "D4-prefix-mask-sum", V, "14895c0", "R-MASK", "variant_effect.deletion_effect")
case("C10", "del-trim-sides-exchanged", "VIOLATION", [(V, "\tif left == True:\n\t\tX = X[:, :, -X_var.shape[-1]:]\n\telse:\n\t\tX = X[:, :, :X_var.shape[-1]]", "\tif left == True:\n\t\tX = X[:, :, :X_var.shape[-1]]\n\telse:\n\t\tX = X[:, :, -X_var.shape[-1]:]")], "R-SIB")
case("C10", "del-flank-not-unflipped", "VIOLATION", [(V, "| (flank if left == True else torch.flip(\n\t\tflank, dims=(-1,)))", "| (flank if left == True else torch.flip(\n\t\tmask, dims=(-1,)))")], "R-SIB")
case("C10", "del-logical-or-spelling", "HOLDS", [(V, "\tmask = mask.type(torch.bool) | (flank if left == True else torch.flip(\n\t\tflank, dims=(-1,)))\n\tmask = ~mask", "\tmask = torch.logical_or(mask.type(torch.bool), flank if left == True else torch.flip(\n\t\tflank, dims=(-1,)))\n\tmask = ~mask")])
case("C10", "del-clamped-sum", "HOLDS", [(V, "\tmask = mask.type(torch.bool) | (flank if left == True else torch.flip(\n\t\tflank, dims=(-1,)))\n\tmask = ~mask", "\tmask = mask + (flank if left == True else torch.flip(\n\t\tflank, dims=(-1,)))\n\tmask = mask.clamp(max=1)\n\tmask = (1 - mask).type(torch.bool)")])
case("C10", "ins-ascending-no-offset", "VIOLATION", [(V, "descending=True)]", "descending=False)]")], "R-ORDER")
case("C10", "ins-unsorted-flip", "VIOLATION", [(V, "\t\tinsertions_ = insertions[insertions[:, 0] == i]\n\t\tinsertions_ = insertions_[torch.argsort(insertions_[:, 1], \n\t\t\tdescending=True)]", "\t\tinsertions_ = insertions[insertions[:, 0] == i].flip(0)")], None, "variant_effect.insertion_effect")
case("C10", "ins-all-rows", "VIOLATION", [(V, "insertions_ = insertions[insertions[:, 0] == i]", "insertions_ = insertions[insertions[:, 0] >= i]")], "INS")
case("C10", "ins-trim-exchanged", "VIOLATION", [(V, "\t\tif left == True:\n\t\t\tx = x[:, :, -X.shape[-1]:]\n\t\telse:\n\t\t\tx = x[:, :, :X.shape[-1]]", "\t\tif left == True:\n\t\t\tx = x[:, :, :X.shape[-1]]\n\t\telse:\n\t\t\tx = x[:, :, -X.shape[-1]:]")], "R-SIB")
case("C10", "sub-no-clone", "VIOLATION", [(V, "X_var = torch.clone(X)", "X_var = X")], None, "variant_effect.substitution_effect")
case("C10", "sub-position-column-mismatch", "VIOLATION", [(V, "X_var[substitutions[:, 0], :, substitutions[:, 1]] = 0", "X_var[substitutions[:, 0], :, substitutions[:, 2]] = 0")], "SUBST")

# ------------------------------------------------------------------ C11
FI = "tangermeme/tools/fimo.py"
prefix("C11", "D5-prefix-fastmath", FI, "ab8c4e8", "R-FASTMATH", "tools.fimo.logaddexp2")
prefix("C11", "D18-prefix-width1", FI, "78d77fb", "R-SCRATCH", "tools.fimo._pwm_to_mapping")
case("C11", "fastmath-flagset-ninf", "VIOLATION", [(FI, "@numba.njit('float64(float64, float64)', cache=True)", "@numba.njit('float64(float64, float64)', fastmath={'ninf', 'contract'}, cache=True)")], "R-FASTMATH")
case("C11", "fastmath-contract-only", "HOLDS", [(FI, "@numba.njit('float64(float64, float64)', cache=True)", "@numba.njit('float64(float64, float64)', fastmath={'contract'}, cache=True)")])
case("C11", "fastmath-on-mapping", "VIOLATION", [(FI, "@numba.njit(cache=True)\ndef _pwm_to_mapping", "@numba.njit(fastmath=True, cache=True)\ndef _pwm_to_mapping")], "R-FASTMATH")
case("C11", "mono-range-short", "VIOLATION", [(FI, "for i in range(len(logpdf) - 2, -1, -1):", "for i in range(len(logpdf) - 2, 0, -1):")], "R-MONO")
case("C11", "mono-step-dropped-term", "VIOLATION", [(FI, "logpdf[i] = logaddexp2(logpdf[i], logpdf[i + 1])", "logpdf[i] = logaddexp2(logpdf[i], logpdf[i])")], "R-MONO")
case("C11", "logadd-no-neginf-guard", "VIOLATION", [(FI, "\tif x == float(\"-inf\") and y == float(\"-inf\"):\n\t\treturn float(\"-inf\")\n", "")], "LOGADD")
case("C11", "init-copy-spelling", "HOLDS", [(FI, "\tlogpdf[:] = old_logpdf\n", "\tlogpdf = old_logpdf.copy()\n")])

# ------------------------------------------------------------------ C12
prefix("C12", "D6-prefix-last-window", FI, "37e28d5", "R-WIN", "tools.fimo._fast_hits")
prefix("C12", "D7-prefix-counts", FI, "c833336", "R-SIB", "tools.fimo.fimo")
prefix("C12", "D17-prefix-float32", FI, "02b26b0", "R-DTYPE", "tools.fimo.fimo")
case("C12", "win-plus-two", "VIOLATION", [(FI, "for i in range(end-start-n+1):", "for i in range(end-start-n+2):")], "R-WIN")
case("C12", "win-max-guard-phantom", "VIOLATION", [(FI, "for i in range(end-start-n+1):", "for i in range(max(end-start, n)-n+1):")], "R-WIN")
case("C12", "win-hoisted-count", "HOLDS", [(FI, "\t\t\tfor i in range(end-start-n+1):", "\t\t\tn_windows = end - start - n + 1\n\t\t\tfor i in range(n_windows):")])
case("C12", "hit-end-off", "VIOLATION", [(FI, "hits[k].append((numpy.int64(l), i, i+n, score, ", "hits[k].append((numpy.int64(l), i, i+n-1, score, ")], "FIELDS")
case("C12", "hit-ge-threshold", "VIOLATION", [(FI, "if score > thresh:", "if score >= thresh:")], "FIELDS")
case("C12", "rc-single-flip", "VIOLATION", [(FI, "pwm.numpy(force=True)[::-1, ::-1]))", "pwm.numpy(force=True)[:, ::-1]))")], "STRAND")
case("C12", "labels-exchanged", "VIOLATION", [(FI, "hits_['strand'] = ['+'] * len(hits[i]) + ['-'] * len(hits[i+n_])", "hits_['strand'] = ['-'] * len(hits[i]) + ['+'] * len(hits[i+n_])")], "R-SIB")
case("C12", "race-shared-slot", "VIOLATION", [(FI, "\t\t\t\t\thits[k].append((numpy.int64(l), i, i+n, score, ", "\t\t\t\t\thits[0].append((numpy.int64(l), i, i+n, score, ")], "R-RACE")
case("C12", "sentinel-default-zero", "VIOLATION", [(FI, "one_hot_mapping = numpy.zeros(256, dtype=numpy.int8) - 1", "one_hot_mapping = numpy.zeros(256, dtype=numpy.int8)")], "R-TABLE")
case("C12", "kernel-no-skip", "VIOLATION", [(FI, "\t\t\t\t\tif idx == -1:\n\t\t\t\t\t\tcontinue\n", "")], "R-TABLE")

# ------------------------------------------------------------------ C15
UT = "tangermeme/utils.py"
prefix("C15", "D10-prefix-single-chunk", UT, "55e33eb", "R-LEN", "utils.unchunk")
case("C15", "unchunk-e-can-be-zero", "VIOLATION", [(UT, "\t\t\ts = overlap // 2\n\t\t\te = -(overlap - s)", "\t\t\te = -(overlap // 2)\n\t\t\ts = overlap + e")], None, "utils.unchunk")
case("C15", "unchunk-two-chunk-double-trim", "VIOLATION", [(UT, "X_ = torch.cat([X_[0, ..., :e], X_[1, ..., s:]], dim=-1)", "X_ = torch.cat([X_[0, ..., :e], X_[1, ..., s - e:]], dim=-1)")], "R-LEN")
case("C15", "unchunk-e-equiv-spelling", "HOLDS", [(UT, "\t\t\te = -(overlap - s)", "\t\t\te = s - overlap")])
case("C15", "ohe-illegal-equals-ignore", "VIOLATION", [(UT, "one_hot_mapping = numpy.zeros(256, dtype=numpy.int8) - 2", "one_hot_mapping = numpy.zeros(256, dtype=numpy.int8) - 1")], "R-TABLE")
case("C15", "ohe-reader-swapped", "VIOLATION", [(UT, "\t\tif idx == -1:\n\t\t\tcontinue\n\n\t\tif idx == -2:", "\t\tif idx == -2:\n\t\t\tcontinue\n\n\t\tif idx == -1:")], "R-TABLE")
case("C15", "rc-map-not-involutive", "VIOLATION", [(UT, "complement_map={\"A\": \"T\", \"C\": \"G\", \"G\": \"C\", \n\t\"T\": \"A\"}", "complement_map={\"A\": \"T\", \"C\": \"G\", \"G\": \"A\", \n\t\"T\": \"C\"}")], "RC")
case("C15", "rc-tensor-no-permute", "VIOLATION", [(UT, "seq_rc = torch.flip(seq, dims=(-1,))[idxs]", "seq_rc = torch.flip(seq, dims=(-1,))")], "RC")
case("C15", "chunk-count-mismatch", "VIOLATION", [(UT, "lengths = (lengths - size) // (size - overlap) + 1", "lengths = lengths // (size - overlap)")], "CHUNKS")
case("C15", "characters-no-N", "VIOLATION", [(UT, "\t\tdna_chars[n_inds] = 'N'\n", "")], "DECODE")

# ------------------------------------------------------------------ C19
SQ = "tangermeme/seqlet.py"
prefix("C19", "D15-prefix-csum-wrap", SQ, "fd657b0", None, "seqlet._recursive_seqlets")
case("C19", "csum-max-clamp", "VIOLATION", [(SQ, "\t\t\t\t\tattr = X_csum[i, end-1]\n\t\t\t\t\tif start > 0:\n\t\t\t\t\t\tattr -= X_csum[i, start-1]", "\t\t\t\t\tattr = X_csum[i, end-1] - X_csum[i, max(start-1, 0)]")], "CSUM")
case("C19", "csum-off-by-one", "VIOLATION", [(SQ, "\t\t\t\t\t\tattr -= X_csum[i, start-1]", "\t\t\t\t\t\tattr -= X_csum[i, start]")], "CSUM")
case("C19", "csum-guard-ge1-spelling", "HOLDS", [(SQ, "\t\t\t\t\tif start > 0:\n\t\t\t\t\t\tattr -= X_csum[i, start-1]", "\t\t\t\t\tif start >= 1:\n\t\t\t\t\t\tattr = attr - X_csum[i, start - 1]")])
case("C19", "end-not-clipped", "VIOLATION", [(SQ, "end = min(end + min_seqlet_len + additional_flanks - 1, l)", "end = end + min_seqlet_len + additional_flanks - 1")], None, "seqlet._recursive_seqlets")
case("C19", "start-not-clipped", "VIOLATION", [(SQ, "start = max(start - additional_flanks, 0)", "start = start - additional_flanks")], None, "seqlet._recursive_seqlets")
case("C19", "threshold-test-dropped", "VIOLATION", [(SQ, "\t\t\t\tif p > threshold:\n\t\t\t\t\tbreak\n", "\t\t\t\tif p >= 1:\n\t\t\t\t\tbreak\n")], "SPAN")
case("C19", "unsorted-return", "VIOLATION", [(SQ, "return seqlets.sort_values(\"p-value\").reset_index(drop=True)", "return seqlets.reset_index(drop=True)")], "SORT")
case("C19", "edge-mask-unguarded", "VIOLATION", [(SQ, "\tif flank > 0:\n\t\tX_sum[:, :flank] = -numpy.inf\n\t\tX_sum[:, -flank:] = -numpy.inf", "\tX_sum[:, :flank] = -numpy.inf\n\tX_sum[:, -flank:] = -numpy.inf")], "R-SLICE0")
case("C19", "tfm-inplace-on-input", "VIOLATION", [(SQ, "X_sum = X_attr.unfold(-1, window_size, 1).sum(dim=-1)", "X_attr[X_attr != X_attr] = 0\n\tX_sum = X_attr.unfold(-1, window_size, 1).sum(dim=-1)")], "R-PURE")
case("C19", "mask-partial", "VIOLATION", [(SQ, "for s_idx in range(start, end):", "for s_idx in range(start + 1, end):")], "SPAN")

# ------------------------------------------------------------------ C20
DS = "tangermeme/design.py"
prefix("C20", "D16-prefix-last-position", DS, "6a80cec", "R-WIN", "design.greedy_substitution")
case("C20", "tiles-plus-two", "VIOLATION", [(DS, "X.repeat(X.shape[-1] - len(motif) + 1, 1, 1)", "X.repeat(X.shape[-1] - len(motif) + 2, 1, 1)")], "R-WIN")
case("C20", "tile-column-shift", "VIOLATION", [(DS, "X[i, k, j+i] = motif[k, j]", "X[i, k, j+i+1] = motif[k, j]")], "R-WIN")
case("C20", "tiles-hoisted-count", "HOLDS", [(DS, "\t\t\tX_ = X.repeat(X.shape[-1] - len(motif) + 1, 1, 1).numpy(force=True)", "\t\t\tn_pos = X.shape[-1] + 1 - len(motif)\n\t\t\tX_ = X.repeat(n_pos, 1, 1).numpy(force=True)")])
case("C20", "accept-ge", "VIOLATION", [(DS, "if improvement > best_improvement:", "if improvement >= best_improvement:")], "R-ACCEPT")
case("C20", "tol-on-last-improvement", "VIOLATION", [(DS, "if best_improvement <= tol:", "if improvement <= tol:")], "R-ACCEPT")
case("C20", "tol-before-apply", "VIOLATION", [(DS, "\t\tif best_motif_idx != -1:", "\t\tif best_improvement <= tol:\n\t\t\tbreak\n\t\tif best_motif_idx != -1:"), (DS, "\t\tif best_improvement <= tol:\n\t\t\tbreak\n\n\t\titeration += 1", "\t\titeration += 1")], "R-ACCEPT")
case("C20", "loss-prev-stale", "VIOLATION", [(DS, "\t\t\tloss_prev = best_loss\n", "")], "R-ACCEPT")
case("C20", "best-not-reset", "NOT-SILENT", [(DS, "\t\ttic = time.time()\n\t\tbest_improvement, best_motif_idx, best_pos = 0, -1, -1", "\t\ttic = time.time()"), (DS, "\ttic = time.time()\n\titeration = 0", "\ttic = time.time()\n\titeration = 0\n\tbest_improvement, best_motif_idx, best_pos = 0, -1, -1")], "R-ACCEPT")
case("C20", "apply-wrong-pos", "VIOLATION", [(DS, "X = substitute(X, motifs[best_motif_idx], start=best_pos, ", "X = substitute(X, motifs[best_motif_idx], start=pos, ")], "R-ACCEPT")
case("C20", "maxiter-after-search", "VIOLATION", [(DS, "\t\tif iteration == max_iter:\n\t\t\tbreak\n\n\t\ttic = time.time()", "\t\ttic = time.time()"), (DS, "\t\tif best_improvement <= tol:\n\t\t\tbreak", "\t\tif best_improvement <= tol:\n\t\t\tbreak\n\t\tif iteration == max_iter:\n\t\t\tbreak")], "R-ACCEPT")

# ------------------------------------------------------------------ C16
IOF = "tangermeme/io.py"
prefix("C16", "D11-prefix-meme-commit", IOF, "069479e", "R-FLUSH", "io.read_meme")
case("C16", "interleave-key-before-filter", "VIOLATION", [(IOF, "\t\tif chroms is not None:\n\t\t\tdf = df[numpy.isin(df['chrom'], chroms)]\n\n\t\tdf['idx'] = numpy.arange(len(df)) * len(loci) + i", "\t\tdf['idx'] = numpy.arange(len(df)) * len(loci) + i\n\t\tif chroms is not None:\n\t\t\tdf = df[numpy.isin(df['chrom'], chroms)]\n")], "INTERLEAVE")
case("C16", "interleave-no-sort", "VIOLATION", [(IOF, "loci = loci.set_index(\"idx\").sort_index().reset_index(drop=True)", "loci = loci.drop(columns=\"idx\").reset_index(drop=True)")], "INTERLEAVE")
case("C16", "edge-end-gt", "VIOLATION", [(IOF, "if start < 0 or end >= chrom_length: ", "if start < 0 or end > chrom_length: ")], "EDGE")
case("C16", "out-window-odd-dropped", "VIOLATION", [(IOF, "end = mid + out_width + max_jitter + (out_window % 2)", "end = mid + out_width + max_jitter")], "WINDOW")
case("C16", "in-window-shifted", "VIOLATION", [(IOF, "start = mid - in_width - max_jitter\n", "start = mid - in_width - max_jitter + 1\n")], "WINDOW")
case("C16", "edge-uses-in-only", "VIOLATION", [(IOF, "end = mid + max(out_width, in_width) + max_jitter", "end = mid + in_width + max_jitter")], None, "io.extract_loci")
case("C16", "continue-after-signal-append", "VIOLATION", [(IOF, "\t\t\tsignals_.append(signal)\n", "\t\t\tsignals_.append(signal)\n\t\t\tif signal[target_idx].sum() == 0:\n\t\t\t\tcontinue\n")], "ALIGN")
case("C16", "window-equiv-spelling", "HOLDS", [(IOF, "end = mid + in_width + max_jitter + (in_window % 2)", "end = start + in_window + 2 * max_jitter")])
case("C16", "meme-commit-ge", "HOLDS", [(IOF, "\t\t\t\tif i == width:\n\t\t\t\t\tmotifs[motif]", "\t\t\t\tif i >= width:\n\t\t\t\t\tmotifs[motif]")])

# ------------------------------------------------------------------ C17
MT = "tangermeme/match.py"
prefix("C17", "D12-prefix-spill-bin0", MT, "9bb024e", "R-COVER", "match.extract_matching_loci")
prefix("C17", "D13-prefix-signal-slice", MT, "81de39b", "R-SLICE0", "match._extract_and_filter_chrom")
case("C17", "spill-upper-guard-strict", "VIOLATION", [(MT, "\t\t\tif idx < n:\n", "\t\t\tif idx < n - 1:\n")], "R-COVER")
case("C17", "spill-upper-guard-le", "VIOLATION", [(MT, "\t\t\tif idx < n:\n", "\t\t\tif idx <= n:\n")], "R-COVER")
case("C17", "spill-offset-from-1", "VIOLATION", [(MT, "for offset in range(n):", "for offset in range(1, n):")], "R-COVER")
case("C17", "signal-window-equiv", "HOLDS", [(MT, "values = values[:, left_flank:in_window-right_flank]", "values = values[:, left_flank:left_flank + out_window]")])
case("C17", "signal-window-neg-flank", "VIOLATION", [(MT, "values = values[:, left_flank:in_window-right_flank]", "values = values[:, left_flank:-right_flank]")], "R-SLICE0")
case("C17", "mask-test-dropped", "VIOLATION", [(MT, "\t\t\t\tif value not in mask[chrom]:\n\t\t\t\t\tgc_percs[key].append((chrom, value))\n\t\t\t\t\tbg_bin_count[key] += 1", "\t\t\t\tgc_percs[key].append((chrom, value))\n\t\t\t\tbg_bin_count[key] += 1")], "MASK")
case("C17", "mask-end-exclusive", "VIOLATION", [(MT, "end = locus.end // in_window + 1", "end = locus.end // in_window")], "MASK")
case("C17", "global-rng", "VIOLATION", [(MT, "\t\trandom_state.shuffle(value)", "\t\tnumpy.random.shuffle(value)")], "R-RNG")
case("C17", "bg-not-reduced", "VIOLATION", [(MT, "\t\t\tif idx >= 0:\n\t\t\t\tcount = min(bg_bin_count[idx], loci_bin_count[i])\n\t\t\t\tbg_bin_count[idx] -= count\n", "\t\t\tif idx >= 0:\n\t\t\t\tcount = min(bg_bin_count[idx], loci_bin_count[i])\n")], "COUNTS")
case("C17", "tile-end-off", "VIOLATION", [(MT, "matched_loci['end'].append((start+1)*in_window)", "matched_loci['end'].append((start+1)*in_window - 1)")], "TILES")

# ------------------------------------------------------------------ C02
case("C02", "shuffle-gather-from-clone", "VIOLATION", [(E, "X_[:, :, start:end] = X[:, :, start:end][:, :, idxs]", "X_[:, :, start:end] = X[:, :, start+1:end+1][:, :, idxs]")], "REGION", "ersatz.shuffle")
case("C02", "shuffle-end-guard-ge", "VIOLATION", [(E, "\tif end > X.shape[-1] or start < 0:\n\t\traise ValueError(\"Start or end are falling off the edge of X.\")\n\n\tif not isinstance(random_state, numpy.random.RandomState):\n\t\trandom_state = numpy.random.RandomState(random_state)\n\n\tX_shufs = []\n\tfor i in range(n):\n\t\tidxs", "\tif end > X.shape[-1] + 1 or start < 0:\n\t\traise ValueError(\"Start or end are falling off the edge of X.\")\n\n\tif not isinstance(random_state, numpy.random.RandomState):\n\t\trandom_state = numpy.random.RandomState(random_state)\n\n\tX_shufs = []\n\tfor i in range(n):\n\t\tidxs")], "REGION", "ersatz.shuffle")
case("C02", "shuffle-neg-end-off", "VIOLATION", [(E, "\tif end < 0:\n\t\tend = X.shape[-1] + 1 + end\n\n\tif end <= start:\n\t\traise ValueError(\"End must come after start.\")\n\n\tif end > X.shape[-1] or start < 0:", "\tif end < 0:\n\t\tend = X.shape[-1] + 2 + end\n\n\tif end <= start:\n\t\traise ValueError(\"End must come after start.\")\n\n\tif end > X.shape[-1] + 1 or start < 0:")], "REGION", "ersatz.shuffle")
case("C02", "shuffle-index-not-shuffled", "VIOLATION", [(E, "\t\trandom_state.shuffle(idxs)\n", "")], "REGION", "ersatz.shuffle")
case("C02", "shuffle-no-permute", "VIOLATION", [(E, "\treturn torch.stack(X_shufs).permute(1, 0, 2, 3)\n\n\t\t\nparams", "\treturn torch.stack(X_shufs)\n\n\t\t\nparams")], "R-AXES", "ersatz.shuffle")
case("C02", "shuffle-stack-dim1", "HOLDS", [(E, "\treturn torch.stack(X_shufs).permute(1, 0, 2, 3)\n\n\t\t\nparams", "\treturn torch.stack(X_shufs, dim=1)\n\n\t\t\nparams")])
case("C02", "dinuc-seed-no-index", "VIOLATION", [(E, "random_state=random_state+i, verbose=verbose)", "random_state=random_state, verbose=verbose)")], "R-RNG", "ersatz.dinucleotide_shuffle")
case("C02", "dinuc-seed-guard-type", "VIOLATION", [(E, "\t_validate_input(X, \"X\", shape=(-1, -1, -1), ohe=True, ohe_dim=1)\n\n\tif random_state is None:", "\t_validate_input(X, \"X\", shape=(-1, -1, -1), ohe=True, ohe_dim=1)\n\n\tif not isinstance(random_state, int):")], "R-RNG", "ersatz.dinucleotide_shuffle")
case("C02", "dinuc-write-other-region", "VIOLATION", [(E, "X_shuf[:, :, start:end] = insert_", "X_shuf[:, :, start:] = insert_")], "REGION", "ersatz.dinucleotide_shuffle")
case("C02", "walk-full-permutation", "VIOLATION", [(E, "\t\t\tnext_idxs_ = numpy.arange(n)\n\t\t\tnext_idxs_[:-1] = numpy.random.permutation(n-1)  # Keep last index", "\t\t\tnext_idxs_ = numpy.random.permutation(n)")], "PREFIX-PERM")
case("C02", "walk-seed-late", "VIOLATION", [(E, "\tnumpy.random.seed(random_state)\n\n\tfor i in range(n_shuffles):\n\t\tfor char in range(n_chars):", "\tfor i in range(n_shuffles):\n\t\tnumpy.random.seed(random_state)\n\t\tfor char in range(n_chars):")], "R-RNG", "ersatz._fast_shuffle")
case("C02", "shuffle-no-clone", "VIOLATION", [(E, "\t\tX_ = torch.clone(X)\n\t\tX_[:, :, start:end]", "\t\tX_ = X\n\t\tX_[:, :, start:end]")], None, "ersatz.shuffle")

# ------------------------------------------------------------------ C13
TT = "tangermeme/tools/tomtom.py"
prefix("C13", "D8-prefix-results-uninit", TT, "932245e", "R-SCRATCH", "tools.tomtom._tomtom")
case("C13", "f-partial-reset", "VIOLATION", [(TT, "\tf[:] = 0\n", "\tf[:nq, :n_bins] = 0\n")], "R-SCRATCH")
case("C13", "A-reset-dropped", "VIOLATION", [(TT, "\tn = n_bins*nq + nq*offset\n\tA[:] = 0\n", "\tn = n_bins*nq + nq*offset\n")], "R-SCRATCH")
case("C13", "bins-reset-dropped", "VIOLATION", [(TT, "\tn, n_bins = len(x), len(bins)\n\tbins[:] = 0\n", "\tn, n_bins = len(x), len(bins)\n")], "R-SCRATCH")
case("C13", "B0-init-dropped", "VIOLATION", [(TT, "\tB[0] = -1\n\tfor i in range(1, min(nq, t_max+1)):\n\t\t_pairwise_max(B[i-1]", "\tfor i in range(1, min(nq, t_max+1)):\n\t\t_pairwise_max(B[i-1]")], "R-SCRATCH")
case("C13", "tsums-init-short", "VIOLATION", [(TT, "\t\tfor k in range(nt+nq-1):\n\t\t\tk = uint64(k)\n\t\t\tt_sums[k] = nq * offset", "\t\tfor k in range(nt+nq-2):\n\t\t\tk = uint64(k)\n\t\t\tt_sums[k] = nq * offset")], "R-SCRATCH")
case("C13", "acsum-tail-dropped", "VIOLATION", [(TT, "\t\t\tA_csum[i, j, n_bins*(j+1)+c:] = 1\n", "")], "R-SCRATCH")
case("C13", "results-col4-not-reset", "VIOLATION", [(TT, "\t\tif reverse_complement == 1:\n\t\t\t_merge_rc_results(_results[pid])\n\t\telse:\n\t\t\t_results[pid, :, 4] = 0\n", "\t\tif reverse_complement == 1:\n\t\t\t_merge_rc_results(_results[pid])\n")], "R-SCRATCH")
case("C13", "scratch-row-zero", "VIOLATION", [(TT, "\t\t_p_values(_gamma_int[pid], _B[pid], rr_inv, T_lens, -1, nq, offset, \n\t\t\t_results[pid])", "\t\t_p_values(_gamma_int[pid], _B[0], rr_inv, T_lens, -1, nq, offset, \n\t\t\t_results[pid])")], "R-TID")
case("C13", "output-row-shared", "VIOLATION", [(TT, "\t\t\tresults[i] = _results[pid, :n_in_targets]", "\t\t\tresults[0] = _results[pid, :n_in_targets]")], "R-RACE")
case("C13", "nearest-by-score", "VIOLATION", [(TT, "idxs = numpy.argsort(_results[pid, :n_in_targets, 0])[:n_nearest]", "idxs = numpy.argsort(_results[pid, :n_in_targets, 1])[:n_nearest]")], "N-NEAREST")
case("C13", "threads-not-restored", "VIOLATION", [(TT, "\tif n_jobs != -1:\n\t\tnumba.set_num_threads(_n_jobs)\n", "\tif n_jobs != -1:\n\t\tnumba.set_num_threads(n_jobs)\n")], "THREADS")
case("C13", "f-reset-explicit-loops", "HOLDS", [(TT, "\tf[:] = 0\n", "\tfor i in range(f.shape[0]):\n\t\tfor j in range(f.shape[1]):\n\t\t\tf[i, j] = 0\n")])
case("C13", "A-zero-fill-spelling", "HOLDS", [(TT, "\tn = n_bins*nq + nq*offset\n\tA[:] = 0\n", "\tn = n_bins*nq + nq*offset\n\tA[:, :, :] = 0\n")])
case("C11", "returns-wrong-offset", "VIOLATION", [(FI, "\treturn smallest, logpdf", "\treturn log_pwm_min_csum, logpdf")], "OFFSET")
case("C01", "multi-mutates-spacing-list", "VIOLATION", [(E, "\tfor i in range(len(spacing)):\n\t\tX = substitute(X, motifs[i], start=start, alphabet=alphabet)", "\tspacing.append(0)\n\tspacing.pop()\n\tfor i in range(len(spacing)):\n\t\tX = substitute(X, motifs[i], start=start, alphabet=alphabet)")], "R-PURE", "ersatz.multisubstitute")
case("C07", "register-not-idempotent", "VIOLATION", [(D, "\tif len(module._backward_hooks) > 0:\n\t\treturn\n\tif not isinstance(module, tuple(module._NON_LINEAR_OPS.keys())):", "\tif not isinstance(module, tuple(module._NON_LINEAR_OPS.keys())):")], "HOOK-PAIRING")

# ------------------------------------------------------------------ C04 / C05
for _p in ("C04", "C05"):
    case(_p, _p + "-ratio-inverted", "VIOLATION", [(D, "\tdelta = delta_out / delta_in\n\tidxs = torch.abs(delta_in) < 1e-6\n\n\treturn (torch.where(idxs, grad_input[0], grad_output[0] * delta),)", "\tdelta = delta_in / delta_out\n\tidxs = torch.abs(delta_in) < 1e-6\n\n\treturn (torch.where(idxs, grad_input[0], grad_output[0] * delta),)")], "R-TERM", "deep_lift_shap._nonlinear")
    case(_p, _p + "-where-arms-swapped", "VIOLATION", [(D, "return (torch.where(idxs, grad_input[0], grad_output[0] * delta),)", "return (torch.where(idxs, grad_output[0] * delta, grad_input[0]),)")], "R-TERM", "deep_lift_shap._nonlinear")
    case(_p, _p + "-orientation-one-sided", "VIOLATION", [(D, "\tdelta_in_ = torch.sub(*module.input.chunk(2))\n\tdelta_out_ = torch.sub(*module.output.chunk(2))\n\n\tdelta_in = torch.cat([delta_in_, delta_in_])\n\tdelta_out = torch.cat([delta_out_, delta_out_])\n\n\tdelta = delta_out / delta_in\n\tidxs = torch.abs(delta_in) < 1e-6\n\n\treturn (torch.where", "\tdelta_in_ = torch.sub(*module.input.chunk(2))\n\tdelta_out_ = -torch.sub(*module.output.chunk(2))\n\n\tdelta_in = torch.cat([delta_in_, delta_in_])\n\tdelta_out = torch.cat([delta_out_, delta_out_])\n\n\tdelta = delta_out / delta_in\n\tidxs = torch.abs(delta_in) < 1e-6\n\n\treturn (torch.where")], "R-TERM", "deep_lift_shap._nonlinear")
    case(_p, _p + "-equivalent-spelling", "HOLDS", [(D, "\tdelta = delta_out / delta_in\n\tidxs = torch.abs(delta_in) < 1e-6\n\n\treturn (torch.where(idxs, grad_input[0], grad_output[0] * delta),)", "\tidxs = torch.abs(delta_in) < 1e-6\n\n\treturn (torch.where(idxs, grad_input[0], grad_output[0] * delta_out * (1 / delta_in)),)")])
    case(_p, _p + "-hypothetical-uses-X", "VIOLATION", [(D, "hypothetical_diffs = hypothetical_input - references[0]", "hypothetical_diffs = X[0] - references[0]")], "R-TERM", "deep_lift_shap.hypothetical_attributions")
    case(_p, _p + "-table-gelu-removed", "VIOLATION", [(D, "\t\ttorch.nn.GELU: _nonlinear,\n", "")], "R-TABLE")
case("C04", "C04-tau-large", "VIOLATION", [(D, "\tdelta = delta_out / delta_in\n\tidxs = torch.abs(delta_in) < 1e-6\n\n\treturn (torch.where", "\tdelta = delta_out / delta_in\n\tidxs = torch.abs(delta_in) < 1e-2\n\n\treturn (torch.where")], "R-TERM")
case("C04", "C04-refs-first", "VIOLATION", [(D, "X_ = torch.cat([_X, _references])", "X_ = torch.cat([_references, _X])")], "HALVES")
case("C04", "C04-hook-capture-no-clone-ok", "HOLDS", [(D, "\t\ttorch.nn.PReLU: _nonlinear,\n\t\ttorch.nn.MaxPool1d: _maxpool,", "\t\ttorch.nn.MaxPool1d: _maxpool,\n\t\ttorch.nn.PReLU: _nonlinear,")], note="reordered dict entries")
case("C04", "C04-hypothetical-gather-argmax", "VIOLATION", [(D, "\tprojected_contribs = torch.zeros_like(references[0], dtype=X[0].dtype, \n\t\tdevice=X[0].device)\n\t\n\tfor i in range(X[0].shape[1]):\n\t\thypothetical_input = torch.zeros_like(X[0], dtype=X[0].dtype, \n\t\t\tdevice=X[0].device)\n\t\thypothetical_input[:, i] = 1.0\n\t\thypothetical_diffs = hypothetical_input - references[0]\n\t\thypothetical_contribs = hypothetical_diffs * multipliers[0]\n\n\t\tprojected_contribs[:, i] = torch.sum(hypothetical_contribs, dim=1)\n", "\tref_idxs = references[0].argmax(dim=1, keepdim=True)\n\tref_contribs = torch.gather(multipliers[0], 1, ref_idxs)\n\tprojected_contribs = (multipliers[0] - ref_contribs).type(X[0].dtype)\n")], "LINEAR-REF")
case("C05", "C05-sum-not-mean", "VIOLATION", [(D, "attr_chunk = attr_chunk.mean(dim=0)", "attr_chunk = attr_chunk.sum(dim=0)")], "PROCESS")
case("C05", "C05-mask-always", "VIOLATION", [(D, "\t\t\t\t\t\tif not hypothetical:\n\t\t\t\t\t\t\tattr_chunk *= X[z].cpu()", "\t\t\t\t\t\tif True:\n\t\t\t\t\t\t\tattr_chunk *= X[z].cpu()")], "PROCESS")

# ------------------------------------------------------------------ C06
case("C06", "seed-by-batch-position", "VIOLATION", [(D, "random_state=random_state+rj[j])[:, 0] ", "random_state=random_state+j)[:, 0] ")], "R-RNG")
case("C06", "refs-per-run", "VIOLATION", [(D, "\t\t\t\t\t\t_references = torch.cat([references(_X[j:j+1], n=1, \n\t\t\t\t\t\t\trandom_state=random_state+rj[j])[:, 0] \n\t\t\t\t\t\t\t\tfor j in range(len(_X))])", "\t\t\t\t\t\tb = [0] + [j for j in range(1, len(rj)) if rj[j] == 0]\n\t\t\t\t\t\t_references = torch.cat([references(_X[s:e], n=1,\n\t\t\t\t\t\t\trandom_state=random_state+rj[s])[:, 0]\n\t\t\t\t\t\t\t\tfor s, e in zip(b, b[1:] + [len(rj)])])")], "R-RNG")
case("C06", "no-final-flush", "VIOLATION", [(D, "if len(Xi) == batch_size or i == (n-1):", "if len(Xi) == batch_size:")], "R-FLUSH")
case("C06", "args-gather-rj", "VIOLATION", [(D, "tuple([a[Xi].to(device) ", "tuple([a[rj].to(device) ")], "R-ARGWIN")
case("C06", "queue-z-not-advanced", "VIOLATION", [(D, "\t\t\t\t\tattr_ = attr_[n_shuffles:]\n\t\t\t\t\tz += 1\n", "\t\t\t\t\tattr_ = attr_[n_shuffles:]\n")], "QUEUE")
case("C06", "only-xi-reset", "VIOLATION", [(D, "\t\t\t\tXi, rj = [], []\n", "\t\t\t\tXi = []\n")], "R-FLUSH")
case("C06", "pairs-shuffle-major", "VIOLATION", [(D, "\t\t\tXi.append(i // n_shuffles)\n\t\t\trj.append(i % n_shuffles)", "\t\t\tXi.append(i % X.shape[0])\n\t\t\trj.append(i // X.shape[0])")], "PAIRS")
case("C06", "refs-layout-swapped", "VIOLATION", [(D, "references_ = torch.cat(references_).reshape(X.shape[0], n_shuffles, \n\t\t\t*X.shape[1:])", "references_ = torch.cat(references_).reshape(n_shuffles, X.shape[0], \n\t\t\t*X.shape[1:]).transpose(0, 1)")], "R-AXES")
case("C06", "input-masked-in-place", "VIOLATION", [(D, "\tattributions, references_, Xi, rj, attr_ = [], [], [], [], []", "\tattributions, references_, Xi, rj, attr_ = [], [], [], [], []\n\tX *= 1")], "R-PURE")

# ------------------------------------------------------------------ C14
prefix("C14", "D9-prefix-score-zero", TT, "932245e", "LOOKUP-GUARD", "tools.tomtom._p_values")
case("C14", "lookup-guard-ge0", "VIOLATION", [(TT, "\t\t\t\tif score > 0:\n\t\t\t\t\tresults[i, 0] = B_cdfs[nt, uint64(score-1)]", "\t\t\t\tif score >= 0:\n\t\t\t\t\tresults[i, 0] = B_cdfs[nt, uint64(score-1)]")], "LOOKUP-GUARD")
case("C14", "lookup-guard-ge1-spelling", "HOLDS", [(TT, "\t\t\t\tif score > 0:\n\t\t\t\t\tresults[i, 0] = B_cdfs[nt, uint64(score-1)]", "\t\t\t\tif score >= 1:\n\t\t\t\t\tresults[i, 0] = B_cdfs[nt, uint64(score-1)]")])
case("C14", "merge-cubed", "VIOLATION", [(TT, "p = 1 - (1 - p) ** 2", "p = 1 - (1 - p) ** 3")], "R-TERM")
case("C14", "merge-expanded-form", "HOLDS", [(TT, "p = 1 - (1 - p) ** 2", "p = 2 * p - p * p")])
case("C14", "merge-strand-by-forward", "VIOLATION", [(TT, "if results[i, 1] <= results[i+n, 1]:", "if results[i, 1] >= results[i+n, 1]:")], "STRAND")
case("C14", "overlap-wrong", "VIOLATION", [(TT, "overlap = min(k+1, nq) - max(0, k-nt+1)", "overlap = min(k+1, nq) - max(0, k-nt)")], "OVERLAP")
case("C14", "overlap-equivalent", "HOLDS", [(TT, "overlap = min(k+1, nq) - max(0, k-nt+1)", "overlap = min(min(k+1, nq), min(nt, nt+nq-1-k))")])
case("C14", "offset-shifted", "VIOLATION", [(TT, "results[i, 2] = k - nq + 1", "results[i, 2] = k - nq")], "SCAN")
case("C14", "rebuild-loop-short", "VIOLATION", [(TT, "\tfor i in range(1, min(nq, t_max+1)):\n\t\tB[i] = -1", "\tfor i in range(1, min(nq, t_max)):\n\t\tB[i] = -1")], "R-SIB")
case("C14", "no-complement", "VIOLATION", [(TT, "\t\tfor j in range(n):\n\t\t\tB[i, j] = 1 - B[i, j]\n", "")], "CDF")
case("C06", "trigger-equivalent-spelling", "HOLDS", [(D, "if len(Xi) == batch_size or i == (n-1):", "if i == n - 1 or len(Xi) == batch_size:")])
prefix("C01", "D19-prefix-randomize-end", E, "31624ea", "R-ACCEPT", "ersatz.randomize")
prefix("C01", "D20-prefix-insert-end", E, "a9f9bb1", "R-ACCEPT", "ersatz.insert")
case("C01", "sub-rejects-zero", "VIOLATION", [(E, SUB_GUARD, SUB_GUARD.replace("start < 0 or ", "start <= 0 or "))], "R-ACCEPT", "ersatz.substitute")
case("C01", "del-rejects-full-tail", "VIOLATION", [(E, DEL_G, "\tif end < 0 or end >= X.shape[-1] or end <= start:")], "R-ACCEPT", "ersatz.delete")
case("C01", "sub-rejects-full-length-motif", "VIOLATION", [(E, "\tif motif.shape[-1] > X.shape[-1]:\n\t\traise ValueError(\"Motif cannot be longer than sequence.\")", "\tif motif.shape[-1] >= X.shape[-1]:\n\t\traise ValueError(\"Motif cannot be longer than sequence.\")")], "R-ACCEPT", "ersatz.substitute")
case("C01", "multi-rejects-zero-spacing", "VIOLATION", [(E, "if l < 0 or l >= X.shape[-1]:", "if l <= 0 or l >= X.shape[-1]:")], "R-ACCEPT", "ersatz.multisubstitute")
case("C01", "rand-n-plus-one", "VIOLATION", [(E, "\tX_rands = []\n\tfor i in range(n):\n\t\tsubstitute_ohe", "\tX_rands = []\n\tfor i in range(n + 1):\n\t\tsubstitute_ohe")], "R-AXES", "ersatz.randomize")
CACHE_OLD = "\t_smallest, _score_to_pvals = _all_pwm_to_mapping(motif_pwms, motif_lengths, \n\t\tbin_size)\n"
case("C12", "cache-names-only-key", "VIOLATION", [(FI, "@numba.njit(cache=True)\ndef _fast_convert", "_MAPPING_CACHE = {}\n\n\n@numba.njit(cache=True)\ndef _fast_convert"), (FI, CACHE_OLD, "\tkey = tuple(motif_names), tuple(motif_lengths), bin_size\n\tif key not in _MAPPING_CACHE:\n\t\t_MAPPING_CACHE[key] = _all_pwm_to_mapping(motif_pwms, motif_lengths, \n\t\t\tbin_size)\n\t_smallest, _score_to_pvals = _MAPPING_CACHE[key]\n")], "STATE")
case("C12", "cache-complete-key", "HOLDS", [(FI, "@numba.njit(cache=True)\ndef _fast_convert", "_MAPPING_CACHE = {}\n\n\n@numba.njit(cache=True)\ndef _fast_convert"), (FI, CACHE_OLD, "\tkey = motif_pwms.tobytes(), tuple(motif_lengths), bin_size, eps\n\tif key not in _MAPPING_CACHE:\n\t\t_MAPPING_CACHE[key] = _all_pwm_to_mapping(motif_pwms, motif_lengths, \n\t\t\tbin_size)\n\t_smallest, _score_to_pvals = _MAPPING_CACHE[key]\n")])
case("C11", "dp-skip-flat-columns", "VIOLATION", [(FI, "\tfor i in range(1, l):\n\t\tfor j in range(largest - smallest + 1):\n\t\t\tlogpdf[j] = -numpy.inf\n", "\tfor i in range(1, l):\n\t\tif int_log_pwm[:, i].min() == int_log_pwm[:, i].max():\n\t\t\tcontinue\n\n\t\tfor j in range(largest - smallest + 1):\n\t\t\tlogpdf[j] = -numpy.inf\n")], "DP")
case("C10", "ins-trim-per-insertion", "VIOLATION", [(V, "\t\t\tx = insert(x, v, start=j)\n\n\t\tif left == True:\n\t\t\tx = x[:, :, -X.shape[-1]:]\n\t\telse:\n\t\t\tx = x[:, :, :X.shape[-1]]\n", "\t\t\tx = insert(x, v, start=j)\n\n\t\t\tif left == True:\n\t\t\t\tx = x[:, :, -X.shape[-1]:]\n\t\t\telse:\n\t\t\t\tx = x[:, :, :X.shape[-1]]\n")], "R-SIB")
case("C09", "raw-flag-inverted", "VIOLATION", [(I, "\tif raw_outputs == False:\n\t\tattr = _attribution_score", "\tif raw_outputs != False:\n\t\tattr = _attribution_score")], "MASK")
case("C09", "neg-end-off-by-one", "VIOLATION", [(I, "end = end if end >= 0 else X.shape[-1] + 1 + end", "end = end if end >= 0 else X.shape[-1] + end")], "COUNT")
case("C02", "shuffle-n-plus-one", "VIOLATION", [(E, "\tX_shufs = []\n\tfor i in range(n):\n\t\tidxs = numpy.arange(end-start)", "\tX_shufs = []\n\tfor i in range(n + 1):\n\t\tidxs = numpy.arange(end-start)")], "R-AXES", "ersatz.shuffle")
case("C02", "shuffle-rejects-full-tail", "VIOLATION", [(E, "\tif end > X.shape[-1] or start < 0:\n\t\traise ValueError(\"Start or end are falling off the edge of X.\")\n\n\tif not isinstance(random_state, numpy.random.RandomState):\n\t\trandom_state = numpy.random.RandomState(random_state)\n\n\tX_shufs = []\n\tfor i in range(n):\n\t\tidxs", "\tif end >= X.shape[-1] or start < 0:\n\t\traise ValueError(\"Start or end are falling off the edge of X.\")\n\n\tif not isinstance(random_state, numpy.random.RandomState):\n\t\trandom_state = numpy.random.RandomState(random_state)\n\n\tX_shufs = []\n\tfor i in range(n):\n\t\tidxs")], "R-ACCEPT", "ersatz.shuffle")
case("C02", "shuffle-neg-end-short", "VIOLATION", [(E, "\tif end < 0:\n\t\tend = X.shape[-1] + 1 + end\n\n\tif end <= start:\n\t\traise ValueError(\"End must come after start.\")\n\n\tif end > X.shape[-1] or start < 0:", "\tif end < 0:\n\t\tend = X.shape[-1] + end\n\n\tif end <= start:\n\t\traise ValueError(\"End must come after start.\")\n\n\tif end > X.shape[-1] or start < 0:")], "REGION", "ersatz.shuffle")
case("C02", "dinuc-drops-last-example", "VIOLATION", [(E, "\tX_shufs = []\n\tfor i in range(X.shape[0]):\n\t\tinsert_ = _dinucleotide_shuffle", "\tX_shufs = []\n\tfor i in range(X.shape[0] - 1):\n\t\tinsert_ = _dinucleotide_shuffle")], "R-AXES", "ersatz.dinucleotide_shuffle")
case("C02", "walk-stops-early", "VIOLATION", [(E, "\t\tfor j in range(1, len(idxs)):", "\t\tfor j in range(1, len(idxs) - 1):")], "WALK")
case("C10", "del-mask-wrong-axes", "VIOLATION", [(V, "mask = torch.zeros_like(X[:, 0]).type(torch.int32)", "mask = torch.zeros_like(X[0, :]).type(torch.int32)")], "DEL")
case("C18", "spacing-skips-abutting", "VIOLATION", [(AN, "\t\t\t\t\td = start1 - end0\n\t\t\t\t\tif d < 0 or d >= max_distance:", "\t\t\t\t\td = start1 - end0\n\t\t\t\t\tif d <= 0 or d >= max_distance:")], "R-ACCEPT")
case("C18", "count-rejects-exact-shape", "VIOLATION", [(AN, "if n_examples > shape[0] or n_annotations > shape[1]:", "if n_examples >= shape[0] or n_annotations > shape[1]:")], "R-ACCEPT")
case("C15", "ohe-skips-last-char", "VIOLATION", [(UT, "\tfor i in range(len(seq)):\n\t\tidx = mapping[seq[i]]", "\tfor i in range(len(seq) - 1):\n\t\tidx = mapping[seq[i]]")], "R-TABLE")
case("C17", "selection-skips-top-bin", "VIOLATION", [(MT, "\tmatched_loci = {'chrom': [], 'start': [], 'end': []}\n\tfor i in range(n):", "\tmatched_loci = {'chrom': [], 'start': [], 'end': []}\n\tfor i in range(n - 1):")], "R-COVER")
case("C17", "filter-not-applied-to-groups", "VIOLATION", [(MT, "gc_perc = {gc:numpy.nonzero(idxs & (gc_perc == gc))[0].tolist() for gc in unique_gc}", "gc_perc = {gc:numpy.nonzero(gc_perc == gc)[0].tolist() for gc in unique_gc}")], "SIGNAL")
case("C16", "min-counts-le", "VIOLATION", [(IOF, "signal[target_idx].sum() < min_counts", "signal[target_idx].sum() <= min_counts")], "FILTER")
case("C19", "csum-build-short", "VIOLATION", [(SQ, "\t\tfor j in range(1, l):\n\t\t\tX_csum[i, j] = X_csum[i, j-1] + X[i, j]", "\t\tfor j in range(1, l - 1):\n\t\t\tX_csum[i, j] = X_csum[i, j-1] + X[i, j]")], "CSUM")
case("C11", "dp-char-loop-short", "VIOLATION", [(FI, "\t\t\t\tfor k in range(n):\n\t\t\t\t\tidx = j + int_log_pwm[k, i]", "\t\t\t\tfor k in range(n - 1):\n\t\t\t\t\tidx = j + int_log_pwm[k, i]")], "DP")
case("C11", "dp-range-zero-start-spelling", "HOLDS", [(FI, "\tfor i in range(n):\n\t\tidx = int_log_pwm[i, 0] - smallest", "\tfor i in range(0, n):\n\t\tidx = int_log_pwm[i, 0] - smallest")])
case("C12", "last-sequence-not-scanned", "VIOLATION", [(FI, "\t\tfor l in range(n_chroms):        ", "\t\tfor l in range(n_chroms - 1):        ")], "LOOPS")
case("C12", "return-counts-inverted", "VIOLATION", [(FI, "\tif return_counts == True:", "\tif return_counts != True:")], "R-SIB")
case("C12", "tensor-offsets-short", "VIOLATION", [(FI, "X_lengths = numpy.arange(X.shape[0]+1) * X.shape[-1]", "X_lengths = numpy.arange(X.shape[0]) * X.shape[-1]")], "LOOPS")
case("C14", "offsets-scan-short", "VIOLATION", [(TT, "\t\tfor k in range(nt+nq-1):\n\t\t\tscore = t_sums[k]", "\t\tfor k in range(nt+nq-2):\n\t\t\tscore = t_sums[k]")], "LOOPS")
case("C14", "histogram-skips-target-column", "VIOLATION", [(TT, "\t\tk = nq - i - 1\n\t\tfor j in range(Y.shape[-1]):", "\t\tk = nq - i - 1\n\t\tfor j in range(Y.shape[-1] - 1):")], "LOOPS")
case("C06", "pairs-loop-short", "VIOLATION", [(D, "for i in trange(n, disable=not verbose):", "for i in trange(n - 1, disable=not verbose):")], "PAIRS")
case("C05", "C05-raw-flag-inverted", "VIOLATION", [(D, "\t\t\t\tif raw_outputs == False:\n\t\t\t\t\tmultipliers = hypothetical_attributions", "\t\t\t\tif raw_outputs != False:\n\t\t\t\t\tmultipliers = hypothetical_attributions")], "PROCESS")
case("C04", "C04-maxpool-drops-dilation", "VIOLATION", [(D, "\t\t_, indices = pool_func(module.input, module.kernel_size, module.stride, \n\t\t\tmodule.padding, module.dilation, module.ceil_mode, True)", "\t\t_, indices = pool_func(module.input, module.kernel_size, module.stride,\n\t\t\tmodule.padding, ceil_mode=module.ceil_mode, return_indices=True)")], "MAXPOOL")
case("C04", "C04-maxpool-keyword-spelling", "HOLDS", [(D, "\t\t_, indices = pool_func(module.input, module.kernel_size, module.stride, \n\t\t\tmodule.padding, module.dilation, module.ceil_mode, True)", "\t\t_, indices = pool_func(module.input, module.kernel_size, module.stride,\n\t\t\tmodule.padding, dilation=module.dilation, ceil_mode=module.ceil_mode, return_indices=True)")])
case("C06", "args-skip-gather-when-same-length", "VIOLATION", [(D, "tuple([a[Xi].to(device) ", "tuple([(a if len(a) == len(Xi) else a[Xi]).to(device) ")], "R-ARGWIN")
for _p in ("C04", "C05"):
    case(_p, _p + "-ratio-clamped", "VIOLATION", [(D, "\tdelta = delta_out / delta_in\n\tidxs = torch.abs(delta_in) < 1e-6\n\n\treturn (torch.where(idxs, grad_input[0], grad_output[0] * delta),)", "\tdelta = torch.clamp(delta_out / delta_in, 0, 1)\n\tidxs = torch.abs(delta_in) < 1e-6\n\n\treturn (torch.where(idxs, grad_input[0], grad_output[0] * delta),)")], "R-TERM", "deep_lift_shap._nonlinear")
case("C18", "spacing-break-assumes-sorted", "VIOLATION", [(AN, "\t\t\t\t\td = start1 - end0\n\t\t\t\t\tif d < 0 or d >= max_distance:\n\t\t\t\t\t\tcontinue", "\t\t\t\t\td = start1 - end0\n\t\t\t\t\tif d >= max_distance:\n\t\t\t\t\t\tbreak\n\t\t\t\t\tif d < 0:\n\t\t\t\t\t\tcontinue")], "PAIRS", note="seed C18-1: early exit assumes rows sorted by start")
IO = "tangermeme/io.py"
case("C16", "filter-truthiness-threshold", "VIOLATION", [(IO, "if max_counts is not None and signal[target_idx].sum() > max_counts:", "if max_counts and signal[target_idx].sum() > max_counts:")], "FILTER", note="seed C16-1: threshold 0 disables the filter")
case("C16", "filter-hoisted-sum", "HOLDS", [(IO, "\t\t\tif min_counts is not None and signal[target_idx].sum() < min_counts:", "\t\t\tcounts = signal[target_idx].sum()\n\t\t\tif min_counts is not None and counts < min_counts:"), (IO, "if max_counts is not None and signal[target_idx].sum() > max_counts:", "if max_counts is not None and max_counts < counts:")], note="hoisted sum and flipped comparison are equivalent")
MT = "tangermeme/match.py"
case("C17", "signal-filter-truthiness", "VIOLATION", [(MT, "\tif bigwig is not None:\n\t\tassert(in_window >= out_window)", "\tif bigwig is not None and signal_threshold:\n\t\tassert(in_window >= out_window)")], "SIGNAL", note="seed C17-1: threshold 0.0 is falsy")
case("C20", "baseline-loss-unmasked", "VIOLATION", [("tangermeme/design.py", "loss_prev = loss(y[:, mask], y_orig[:, mask]).mean()", "loss_prev = loss(y, y_orig).mean()")], "R-SIB", note="seed C20-1")
case("C15", "N-test-by-tie-count", "VIOLATION", [("tangermeme/utils.py", "n_inds = numpy.where(pwm.sum(axis=0)==0)[0]", "n_inds = numpy.where((pwm == pwm.max(axis=0, keepdims=True)).sum(axis=0) == len(alphabet))[0]")], "DECODE", note="seed C15-1")
prefix("C13", "D21-prefix-tsums-extent", "tangermeme/tools/tomtom.py", "88eec51", "R-BOUNDS", "tools.tomtom._tomtom")
case("C13", "scratch-B-one-row-short", "VIOLATION", [("tangermeme/tools/tomtom.py", "_B = numpy.empty((n, T_max+1, n_len), dtype='float64')", "_B = numpy.empty((n, T_max, n_len), dtype='float64')")], "R-BOUNDS", note="mutation sweep: allocation one row short, B[t_max] out of bounds")
case("C13", "scratch-f-one-bin-short", "VIOLATION", [("tangermeme/tools/tomtom.py", "_f = numpy.empty((n, Q_max, n_score_bins+1), dtype='float64')", "_f = numpy.empty((n, Q_max, n_score_bins), dtype='float64')")], "R-BOUNDS")
case("C13", "tsums-extent-equiv", "HOLDS", [("tangermeme/tools/tomtom.py", "\tmax_nt = max(T_lens)\n\tt_sums = numpy.empty(max_nt+nq-1, dtype='int16')", "\tlongest = max(T_lens)\n\tt_sums = numpy.empty(nq + longest, dtype='int16')")], note="larger scratch under another name")


# ------------------------------------------------------------------ rules added after the fourth round of seeds (KNOB, R-EVAL on DeepLIFT, ARGS-GIVEN, REFGRAD, NONE-TEST)
case("C17", "njobs-reorders-chroms", "VIOLATION", [(MT, "\tf = delayed(_extract_and_filter_chrom)\n", "\tif n_jobs != 1:\n\t\tchroms = sorted(chroms, reverse=True)\n\tf = delayed(_extract_and_filter_chrom)\n")], "KNOB", "match.extract_matching_loci")
case("C17", "verbose-only-prints", "HOLDS", [(MT, "\tf = delayed(_extract_and_filter_chrom)\n", "\tif verbose:\n\t\tmsg = 'scanning'\n\t\tprint(msg)\n\tf = delayed(_extract_and_filter_chrom)\n")])
case("C06", "eval-only-if-training", "VIOLATION", [(D, "\tmodel = model.to(device).eval()\n\tfor module in model.modules():", "\tmodel = model.to(device)\n\tif model.training:\n\t\tmodel = model.eval()\n\tfor module in model.modules():")], "R-EVAL", "deep_lift_shap.deep_lift_shap")
case("C07", "eval-skipped-when-on-device", "VIOLATION", [(D, "\tmodel = model.to(device).eval()\n\tfor module in model.modules():", "\tif next(model.parameters()).device != torch.device(device):\n\t\tmodel = model.to(device).eval()\n\tfor module in model.modules():")], "R-EVAL", "deep_lift_shap.deep_lift_shap")
case("C03", "args-cast-to-model-dtype", "VIOLATION", [(P, "args_ = [a[start:end].to(device) for a in args]", "args_ = [a[start:end].to(device, dtype) for a in args]")], "ARGS-GIVEN", "predict.predict")
case("C03", "args-moved-with-cuda", "HOLDS", [(P, "args_ = [a[start:end].to(device) for a in args]", "args_ = [a[start:end].contiguous().to(device) for a in args]")])
case("C04", "refs-from-grad-tensor", "VIOLATION", [(D, "\t\t\t\t_X = X[Xi].cpu()\n", "\t\t\t\t_X = X[Xi].cpu().requires_grad_()\n")], "REFGRAD", "deep_lift_shap.deep_lift_shap")
case("C01", "start-truthiness", "VIOLATION", [(E, "\tif start is not None:\n\t\tif start < 0 or start > (X.shape[-1] - motif.shape[-1]):", "\tif start:\n\t\tif start < 0 or start > (X.shape[-1] - motif.shape[-1]):")], "NONE-TEST", "ersatz.substitute")


# ------------------------------------------------------------------ rules added after the fifth round of seeds
_ABL = "tangermeme/ablate.py"
case("C08", "ablate-mutable-default", "VIOLATION", [(_ABL, "additional_func_kwargs=None, **kwargs):", "additional_func_kwargs={}, **kwargs):"),
                                                    (_ABL, "\tadditional_func_kwargs = additional_func_kwargs or {}\n", "")], "STATE", "ablate.ablate")
case("C06", "flush-in-set-order", "VIOLATION", [(D, "\t\t\t\twhile len(attr_) >= n_shuffles:\n", "\t\t\t\tfor _done in set(Xi):\n\t\t\t\t\treferences_.append(_done)\n\t\t\t\twhile len(attr_) >= n_shuffles:\n")], "SET-ORDER", "deep_lift_shap.deep_lift_shap")
case("C04", "projection-before-convergence-check", "VIOLATION", [(D, "\t\t\t\t\t# Check that the prediction-difference-from-reference is equal to\n", "\t\t\t\t\tif raw_outputs == False:\n\t\t\t\t\t\tmultipliers = hypothetical_attributions((multipliers,), (_X,), (_references,))[0]\n\t\t\t\t\t# Check that the prediction-difference-from-reference is equal to\n")], "HALVES", "deep_lift_shap.deep_lift_shap")
case("C17", "mask-from-filtered-loci", "VIOLATION", [(MT, "\tloci_chroms = numpy.unique(loci['chrom'])\n", "\tloci = loci[loci['start'] > 0]\n\tloci_chroms = numpy.unique(loci['chrom'])\n")], "MASK", "match.extract_matching_loci")
case("C03", "args-check-one-sided", "VIOLATION", [(P, "\t\t\tif arg.shape[0] != X.shape[0]:", "\t\t\tif arg.shape[0] < X.shape[0]:")], "ARGS-CHECK", "predict.predict")
prefix("C06", "D22-prefix-softmax-batch-mean", D, "c5ef762", "R-BATCH", "deep_lift_shap._softmax")
case("C06", "nonlinear-batch-scaled-tolerance", "VIOLATION", [(D, "\tidxs = torch.abs(delta_in) < 1e-6\n\n\treturn (torch.where(idxs, grad_input[0], grad_output[0] * delta),)", "\ttol = 1e-6 * max(1.0, module.input.abs().max().item())\n\tidxs = torch.abs(delta_in) < tol\n\n\treturn (torch.where(idxs, grad_input[0], grad_output[0] * delta),)")], "R-BATCH", "deep_lift_shap._nonlinear")
case("C05", "hooks-skip-foreign-forward-hook", "VIOLATION", [(D, "\tif len(module._backward_hooks) > 0:\n\t\treturn\n", "\tif len(module._backward_hooks) > 0 or len(module._forward_hooks) > 0:\n\t\treturn\n")], "HOOKS", "deep_lift_shap._register_hooks")
case("C07", "predict-inference-mode", "VIOLATION", [(P, "with torch.no_grad():", "with torch.inference_mode():")], "R-NOGRAD", "predict.predict")
case("C12", "fimo-eps-written-into-motif", "VIOLATION", [(FI, "\tmotifs = [(name, pwm.numpy(force=True)) for name, pwm in motifs_]\n", "\tmotifs = [(name, pwm.numpy(force=True)) for name, pwm in motifs_]\n\tfor name, pwm in motifs:\n\t\tpwm += 0.0\n")], "R-PURE", "tools.fimo.fimo")
case("C11", "fimo-eps-only-for-zeros", "VIOLATION", [(FI, "\tmotif_pwms = numpy.log2(motif_pwms + eps) - math.log2(0.25)\n", "\tif motif_pwms.min() <= 0:\n\t\tmotif_pwms = motif_pwms + eps\n\tmotif_pwms = numpy.log2(motif_pwms) - math.log2(0.25)\n")], "EPS", "tools.fimo.fimo")
case("C09", "ism-args-tiled-whole", "VIOLATION", [(I, "\t\t\targs_ = tuple(a[i].repeat(X_.shape[0], *(1 for _ in a[i].shape))", "\t\t\targs_ = tuple(a.repeat(X_.shape[0], *(1 for _ in a[i].shape))")], "ARGS-GIVEN", "ism.saturation_mutagenesis")
