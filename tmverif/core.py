"""Runner, verdict objects, evidence writer, known-findings handling, exit protocol."""
import ast
import importlib
import json
import os
import sys
import time
import traceback

from .front import Repo, AnalysisError, REPO

VERIF = os.path.dirname(os.path.dirname(os.path.abspath(__file__)))
EVIDENCE = os.path.join(VERIF, "evidence")
KNOWN = os.path.join(VERIF, "known_findings.txt")

HOLDS, VIOLATION, UNRECOGNISED = "HOLDS", "VIOLATION", "UNRECOGNISED"


class Result:
    def __init__(self, rule, func, role, status, detail="", where="", witness=None,
                 nontrivial=True, facts=None, note=False, semantic=None):
        self.rule = rule            # R-GUARD ...
        self.func = func            # 'ersatz.substitute'
        self.role = role            # structural role of the site (stable across line moves)
        self.status = status
        self.detail = detail
        self.where = where          # file:line (diagnostic only, never a key)
        self.witness = witness
        self.nontrivial = nontrivial
        self.facts = facts or []    # what the rule used (path constraints, matched constructs)
        self.note = note            # unanchored sweep match: reported, never a verdict
        self.semantic = semantic    # verdict derived by an engine (constraints, aliasing, typestate, terms, paths), not by comparing spellings

    @property
    def key(self):
        return "%s:%s:%s" % (self.rule, self.func, self.role)

    def to_json(self):
        d = {"rule": self.rule, "function": self.func, "role": self.role, "status": self.status,
             "detail": self.detail, "where": self.where}
        if self.witness is not None:
            d["witness"] = self.witness
        if self.facts:
            d["facts"] = self.facts
        return d


def holds(rule, fi, role, detail="", node=None, **kw):
    return Result(rule, _q(fi), role, HOLDS, detail, _w(fi, node), **kw)


def violation(rule, fi, role, detail="", node=None, **kw):
    return Result(rule, _q(fi), role, VIOLATION, detail, _w(fi, node), **kw)


def named(rule, fi, role, detail="", node=None, **kw):
    """a VIOLATION for a recognised deviation: the rule found a specific construct it knows to be wrong (positive evidence), as opposed to
    not finding the construct it expected; exempt from the rewrite gate"""
    kw.setdefault("semantic", True)
    return Result(rule, _q(fi), role, VIOLATION, detail, _w(fi, node), **kw)


def unrecognised(rule, fi, role, detail="", node=None, **kw):
    return Result(rule, _q(fi), role, UNRECOGNISED, detail, _w(fi, node), **kw)


def _q(fi):
    return fi if isinstance(fi, str) else fi.qual


def _w(fi, node):
    if isinstance(fi, str):
        return ""
    return fi.line(node) if node is not None else fi.line(fi.node)


def load_known():
    known, fixed = {}, []
    if os.path.exists(KNOWN):
        for line in open(KNOWN):
            line = line.strip()
            if not line or line.startswith("#"):
                continue
            if line.startswith("fixed:"):
                fixed.append(line)
                continue
            if line.startswith("known:"):
                # known: property=C07 key=<key> <text>
                parts = line.split(None, 3)
                pid = parts[1].split("=", 1)[1]
                key = parts[2].split("=", 1)[1]
                text = parts[3] if len(parts) > 3 else ""
                known.setdefault(pid, {})[key] = text
    return known, fixed


def run_property(pid, tier="quick", replay=None, repo_root=None, write_evidence=True, quiet=False):
    t0 = time.time()
    seed = int(os.environ.get("VERIF_SEED", "0") or 0)
    out = []

    def say(*a):
        if not quiet:
            print(*a)
        out.append(" ".join(str(x) for x in a))

    try:
        mod = importlib.import_module("tmverif.props." + pid.lower())
        repo = Repo(repo_root)
        results = mod.run(repo, tier)
    except AnalysisError as e:
        say("ANALYSIS-ERROR property=%s %s" % (pid, e))
        return 2, out, []
    except Exception:
        say("ANALYSIS-ERROR property=%s checker crashed:" % pid)
        say(traceback.format_exc())
        return 2, out, []

    # call-history independence is part of every "equals exactly ..." property: the STATE rule (module-level containers, functools caches)
    # is run for every module a property is anchored in, unless the property module already did
    try:
        from .rules import module_state_rule
        have = {r.func.rsplit(".", 1)[0] for r in results if r.rule == "STATE"}
        for short in sorted({q.rsplit(".", 1)[0] for q in getattr(mod, "ANCHORS", [])}):
            if short in repo.mods and short not in have:
                results.extend(module_state_rule(repo, short))
        # slice bounds written `-e` with a computed e: e >= 1 on every path (engine rule, every anchored function)
        from .rules import negative_slice_rule
        keys = {r.key for r in results}
        for q in getattr(mod, "ANCHORS", []):
            if repo.has_func(q):
                try:
                    for r in negative_slice_rule(repo.func(q)):
                        if r.key not in keys:
                            results.append(r)
                            keys.add(r.key)
                except AnalysisError:
                    raise
                except Exception as e:
                    results.append(unrecognised("R-SLICE0", q, "slice bounds of the form -e", "engine failed: %s" % str(e)[:100]))
        # knobs (`verbose`, `n_jobs`) reach schedulers, progress bars and messages only: "for every input ... the result is X" includes
        # every value of a parameter that is documented as not affecting the result
        from .rules import knob_rule
        for q in getattr(mod, "ANCHORS", []):
            if repo.has_func(q):
                fq = repo.func(q)
                for knob in ("verbose", "n_jobs"):
                    if knob in fq.params:
                        try:
                            for r in knob_rule(fq, knob):
                                if r.key not in keys:
                                    results.append(r)
                                    keys.add(r.key)
                        except AnalysisError:
                            raise
                        except Exception as e:
                            results.append(unrecognised("KNOB", q, "results do not depend on `%s`" % knob, "rule failed: %s" % str(e)[:100]))
        # a mutable default that is written into is call-history state
        from .rules import mutable_default_rule
        for q in getattr(mod, "ANCHORS", []):
            if repo.has_func(q):
                try:
                    for r in mutable_default_rule(repo.func(q)):
                        if r.key not in keys:
                            results.append(r)
                            keys.add(r.key)
                except AnalysisError:
                    raise
                except Exception as e:
                    results.append(unrecognised("STATE", q, "mutable defaults are not written into", "rule failed: %s" % str(e)[:100]))
        # a parameter the confirmed version reads and the current version never reads is ignored input
        try:
            from . import canon as _canon
            _ref = Repo(_canon.REFERENCE_DIR)
            for q in getattr(mod, "ANCHORS", []):
                if repo.has_func(q) and _ref.has_func(q):
                    fc, fr = repo.func(q), _ref.func(q)
                    def _reads(f):
                        return {x.id for x in ast.walk(f.node) if isinstance(x, ast.Name) and isinstance(x.ctx, ast.Load)}
                    rc, rr_ = _reads(fc), _reads(fr)
                    for p_ in fr.params:
                        if p_ in fc.params and p_ in rr_ and p_ not in rc and p_ not in ("self", "kwargs", "args_", "verbose"):
                            r = named("PARAM-UNUSED", fc, "every parameter the confirmed version reads is still read",
                                      "parameter `%s` is accepted but never read any more (the confirmed version reads it %d time(s)): whatever the caller "
                                      "passes is ignored" % (p_, sum(1 for x in ast.walk(fr.node) if isinstance(x, ast.Name) and x.id == p_ and isinstance(x.ctx, ast.Load))),
                                      fc.node)
                            if r.key not in keys:
                                results.append(r)
                                keys.add(r.key)
        except AnalysisError:
            raise
        except Exception:
            pass
        # memory addresses are not content: no memo keyed by data_ptr() / id()
        from .rules import identity_key_rule
        for q in getattr(mod, "ANCHORS", []):
            if repo.has_func(q):
                try:
                    for r in identity_key_rule(repo.func(q)):
                        if r.key not in keys:
                            results.append(r)
                            keys.add(r.key)
                except AnalysisError:
                    raise
                except Exception:
                    pass
        # an ordered result must not be built by iterating an unordered set
        from .rules import set_order_rule
        for q in getattr(mod, "ANCHORS", []):
            if repo.has_func(q):
                try:
                    for r in set_order_rule(repo.func(q)):
                        if r.key not in keys:
                            results.append(r)
                            keys.add(r.key)
                except AnalysisError:
                    raise
                except Exception:
                    pass
        # optional numeric / array parameters are recognised as absent by identity with None, not by truth value
        from .rules import none_test_rule
        for q in getattr(mod, "ANCHORS", []):
            if repo.has_func(q):
                try:
                    for r in none_test_rule(repo.func(q)):
                        if r.key not in keys:
                            results.append(r)
                            keys.add(r.key)
                except AnalysisError:
                    raise
                except Exception as e:
                    results.append(unrecognised("NONE-TEST", q, "optional parameters are tested with `is None`", "rule failed: %s" % str(e)[:100]))
    except AnalysisError as e:
        say("ANALYSIS-ERROR property=%s %s" % (pid, e))
        return 2, out, []
    verdicts = [r for r in results if not r.note]
    notes = [r for r in results if r.note]
    # a value-returning `return` that the confirmed version of an analysed function does not have is a path the rule tables were never
    # confirmed on (typically an added fast path): if everything else holds, say so instead of passing silently
    path_note = None
    if all(r.status == HOLDS for r in verdicts) and not os.environ.get("TMVERIF_NO_GATE"):
        try:
            from . import canon
            ref = Repo(canon.REFERENCE_DIR)
            funcs_seen = {r.func for r in verdicts}
            for short in sorted(repo.consulted):
                if short not in ref.mods:
                    continue
                for name, f in repo.mods[short].funcs.items():
                    q = "%s.%s" % (short, name)
                    if q not in funcs_seen or name not in ref.mods[short].funcs:
                        continue
                    cn = canon.value_returns(f.node)
                    rn = canon.value_returns(ref.mods[short].funcs[name].node)
                    if cn > rn:
                        rr = [n for n in ast.walk(f.node) if isinstance(n, ast.Return) and n.value is not None]
                        extra = Result("PATHS", q, "every value-returning path of the function is one the rule tables were confirmed on", UNRECOGNISED,
                                       "%s has %d value-returning `return` statements, the confirmed version %d: an added return path (fast path / early "
                                       "exit) is not covered by the rules of this property" % (q, cn, rn), "%s:%d" % (os.path.relpath(f.mod.path, repo.root), rr[0].lineno))
                        verdicts.append(extra)
                        results.append(extra)
                        path_note = extra.detail
                        # positive evidence about the added path: every value-returning path of the confirmed version depends on certain
                        # parameters (mentions them in its branch decisions, effects or returned term); a return path that does not
                        # mention one of them computes its result without it
                        try:
                            import re as _re
                            from . import equiv as _eq
                            rnode = ref.mods[short].funcs[name].node
                            params = [a.arg for a in rnode.args.args if a.arg not in ("verbose", "n_jobs", "self")]
                            def rets(fn):
                                return [pf for pf in _eq.path_facts(fn) if pf["outcome"] and pf["outcome"][0] == "return" and pf["outcome"][1] != "None"]
                            def mentions(pf, p_):
                                return _re.search(r"(?<![\w.])%s(?![\w])" % _re.escape(p_), repr((pf["decisions"], pf["effects"], pf["outcome"]))) is not None
                            rr_ = rets(rnode)
                            universal = [p_ for p_ in params if rr_ and all(mentions(pf, p_) for pf in rr_)]
                            for pf in rets(f.node):
                                miss = [p_ for p_ in universal if not mentions(pf, p_)]
                                if miss:
                                    conds = ", ".join("%s is %s" % (k[:40], v) for k, v in list(pf["decisions"].items())[:3])
                                    pv = named("PATHS", f, "every value-returning path depends on the parameters every confirmed path depends on",
                                               "the return path taken when [%s] yields `%s` without using parameter(s) %s, on which every return path of the "
                                               "confirmed version depends" % (conds, str(pf["outcome"][1])[:60], ", ".join("`%s`" % m_ for m_ in miss)), rr[0])
                                    verdicts.append(pv)
                                    results.append(pv)
                                    break
                        except Exception:
                            pass
        except Exception as e:
            path_note = "path gate unavailable: %s" % e
    equiv_note = None
    if any(r.status != HOLDS for r in verdicts) and not os.environ.get("TMVERIF_NO_EQUIV"):
        # a shape the rule tables do not know (or a rule that fires): before that becomes a verdict, try to PROVE that the package computes
        # what the confirmed reference computes (tmverif.equiv).  If it does, the verdict of the same rules on the reference carries over.
        try:
            from . import equiv, canon
            ref = Repo(canon.REFERENCE_DIR)
            ok, reasons, stats = equiv.package_equivalent(repo, ref)
            if ok and stats.get("equivalent"):
                ref_results = [r for r in mod.run(ref, tier) if not r.note]
                if ref_results and all(r.status == HOLDS for r in ref_results):
                    n_up = 0
                    for r in verdicts:
                        if r.status != HOLDS:
                            r.detail = "[proved equivalent to the confirmed reference, on which every rule of this property holds; the rule itself said %s: %s]" % (
                                r.status, r.detail[:300])
                            r.status = HOLDS
                            r.witness = None
                            n_up += 1
                    # rule instances that did not come up at all on the rewritten shape (a rule returned early) hold on the reference too
                    have = {r.key for r in verdicts}
                    for r in ref_results:
                        if r.key not in have:
                            r.detail = "[instance of the confirmed reference, to which the package was proved equivalent] %s" % r.detail[:300]
                            verdicts.append(r)
                            results.append(r)
                            have.add(r.key)
                            n_up += 1
                    equiv_note = "package proved equivalent to the reference (%d functions identical, summary-equivalent: %s); %d rule result(s) taken from the reference" % (
                        stats["identical"], ", ".join(stats["equivalent"]), n_up)
                else:
                    equiv_note = "package equivalent to the reference, but the reference itself does not satisfy every rule: verdicts unchanged"
            elif not ok:
                equiv_note = "not proved equivalent to the reference: %s" % "; ".join(reasons[:3])
        except AnalysisError as e:
            equiv_note = "equivalence fallback unavailable: %s" % e
        except Exception as e:       # the fallback must never turn a verdict into a crash
            equiv_note = "equivalence fallback crashed (%s: %s): verdicts unchanged" % (type(e).__name__, str(e)[:120])
    # spelling-based rules cannot tell a refactoring from a defect once a function has been rewritten: their VIOLATIONs are kept only
    # while every changed function is a first-order edit of its reference version (a deletion, or one replaced statement)
    sem_rules = set(getattr(mod, "SEMANTIC_RULES", ())) | {"STATE", "R-SLICE0", "KNOB", "NONE-TEST", "SET-ORDER", "PARAM-UNUSED"}
    # every VIOLATION that is neither derived by an engine (semantic=True / SEMANTIC_RULES) nor an explicitly recognised deviation
    # (core.named) comes from comparing spellings and is subject to the rewrite gate
    gate_note = None
    def _is_sem(r):
        # explicit marking wins (semantic=True / False); unmarked findings follow the module's table
        return r.semantic if r.semantic is not None else (r.rule in sem_rules)
    if any(r.status == VIOLATION and not _is_sem(r) for r in verdicts) and not os.environ.get("TMVERIF_NO_GATE"):
        try:
            from . import canon
            ref = Repo(canon.REFERENCE_DIR)
            rewritten = canon.rewritten_functions(repo, ref)
            if os.environ.get("TMVERIF_GATE_ALL") and not rewritten:
                rewritten = ["(any edit)"]
            if rewritten:
                n_dn = 0
                for r in verdicts:
                    if r.status == VIOLATION and not _is_sem(r):
                        r.status = UNRECOGNISED
                        r.detail = "[spelling-based rule; %s rewritten beyond a first-order edit, so this is not reported as a violation] %s" % (
                            ", ".join(rewritten[:3]), r.detail)
                        n_dn += 1
                gate_note = "%d spelling-based finding(s) downgraded to ANALYSIS-ERROR: rewritten functions %s" % (n_dn, ", ".join(rewritten[:6]))
        except AnalysisError as e:
            gate_note = "rewrite gate unavailable: %s" % e
    known, _fixed = load_known()
    known = known.get(pid, {})
    viol = [r for r in verdicts if r.status == VIOLATION]
    unrec = [r for r in verdicts if r.status == UNRECOGNISED]
    held = [r for r in verdicts if r.status == HOLDS]
    new_viol = [r for r in viol if r.key not in known]
    known_viol = [r for r in viol if r.key in known]

    if replay:
        try:
            want = json.load(open(replay)).get("key")
        except Exception as e:
            say("ANALYSIS-ERROR cannot read replay file %s: %s" % (replay, e))
            return 2, out, results
        sel = [r for r in verdicts if r.key == want]
        for r in sel:
            say("%s %s [%s] %s -- %s" % (r.status, r.key, r.where, r.detail, json.dumps(r.witness) if r.witness else ""))
        if not sel:
            say("ANALYSIS-ERROR instance %s no longer exists" % want)
            return 2, out, results
        return (1 if any(r.status == VIOLATION for r in sel) else 0), out, results

    floor = getattr(mod, "MIN_INSTANCES", 1)
    rc = 0
    say("property %s tier=%s repo=%s digest=%s" % (pid, tier, repo.root, repo.digest()))
    say("analysed modules: %s" % ", ".join(sorted(repo.consulted)))
    clog = {"%s.%s" % (m.short, f): a for m in repo.mods.values() for f, a in getattr(m, "canon_log", {}).items()}
    if clog:
        say("canonicalised towards the reference: %s" % "; ".join("%s [%s]" % (k, ", ".join(v[:6])) for k, v in sorted(clog.items())[:8]))
    if equiv_note:
        say("equivalence: %s" % equiv_note)
    if gate_note:
        say("rewrite gate: %s" % gate_note)
    for r in verdicts:
        say("  [%s] %-10s %s  (%s) %s" % (r.status, r.rule, r.func + " :: " + r.role, r.where, r.detail))
    for r in notes:
        say("  [note] %-10s %s  (%s) %s" % (r.rule, r.func + " :: " + r.role, r.where, r.detail))

    replay_dir = os.path.join(EVIDENCE, "replay")
    if new_viol and write_evidence:
        os.makedirs(replay_dir, exist_ok=True)
    for r in known_viol:
        say("KNOWN-FINDING: property=%s %s %s" % (pid, r.key, known[r.key]))
    for i, r in enumerate(new_viol):
        path = os.path.join(replay_dir, "%s-%d.json" % (pid, i))
        if write_evidence:
            with open(path, "w") as f:
                json.dump(dict(r.to_json(), key=r.key, property=pid, repo_digest=repo.digest()), f, indent=1)
        say("VIOLATION property=%s replay=%s" % (pid, path))
        say("   rule=%s site=%s :: %s at %s" % (r.rule, r.func, r.role, r.where))
        say("   %s" % r.detail)
        if r.witness:
            say("   witness: %s" % json.dumps(r.witness))
        rc = 1
    if rc == 0 and unrec:
        for r in unrec:
            say("ANALYSIS-ERROR property=%s unrecognised shape: %s at %s: %s" % (pid, r.key, r.where, r.detail))
        rc = 2
    if rc == 0 and len(verdicts) < floor:
        say("ANALYSIS-ERROR property=%s only %d rule instances matched (floor %d): a rule went vacuous" % (
            pid, len(verdicts), floor))
        rc = 2

    wall = time.time() - t0
    if write_evidence:
        os.makedirs(EVIDENCE, exist_ok=True)
        samples = [r.to_json() for r in verdicts[:60]]
        ev = {
            "property_id": pid,
            "tier": tier if tier in ("quick", "thorough") else "quick",
            "seed": seed,
            "level": "other",
            "coverage": {
                "explanation": getattr(mod, "EXPLANATION", ""),
                "rule": "one case per armed rule instance (rule, function, structural role) found in /repo's "
                        "current source; non-trivial = the verdict needed the rule's argument (entailment over "
                        "path constraints, dataflow, layout or term comparison), not mere presence of a name",
                "obligations": len(verdicts),
                "discharged": len(held),
                "evaluations": max(1, len(verdicts)),
                "distinct_nontrivial": len({r.key for r in verdicts if r.nontrivial}),
                "samples": samples,
                "functions_analysed": sorted({r.func for r in results}),
                "modules_parsed": sorted(repo.consulted),
                "repo_digest": repo.digest(),
                "instance_floor": floor,
                "unrecognised": [r.to_json() for r in unrec],
                "notes": [r.to_json() for r in notes][:80],
                "known_findings_matched": [r.key for r in known_viol],
                "selftest": getattr(mod, "LAST_SELFTEST", None),
                "pipeline": {
                    "canonicalisation": "every function is rewritten towards /verif/reference by semantics-preserving steps before the rules run "
                                        "(tmverif.canon); functions changed on this run: %s" % (clog if clog else "none (tree identical to the reference)"),
                    "equivalence_fallback": equiv_note or "not needed (every rule reached a verdict of HOLDS directly)",
                    "rewrite_gate": gate_note or "no spelling-based finding to gate",
                    "path_gate": path_note or "no value-returning return path beyond the confirmed ones",
                    "semantic_findings": sorted({r.rule for r in verdicts if (r.semantic if r.semantic is not None else r.rule in sem_rules)}),
                },
                "exhaustive": False,
            },
            "assumptions": list(getattr(mod, "ASSUMPTIONS", [])),
            "wall_s": round(wall, 3),
            "violations": len(new_viol),
        }
        with open(os.path.join(EVIDENCE, pid + ".json"), "w") as f:
            json.dump(ev, f, indent=1)
    say("summary property=%s instances=%d holds=%d violations=%d known=%d unrecognised=%d wall=%.2fs exit=%d" % (
        pid, len(verdicts), len(held), len(new_viol), len(known_viol), len(unrec), wall, rc))
    return rc, out, results


def main(argv=None):
    argv = list(sys.argv[1:] if argv is None else argv)
    if not argv:
        print("usage: check <PROPERTY-ID> [--tier quick|thorough] [--replay path] [--repo root]")
        return 2
    pid = argv.pop(0).upper()
    tier = os.environ.get("VERIF_TIER", "quick") or "quick"
    replay = None
    root = None
    write_ev = True
    while argv:
        a = argv.pop(0)
        if a == "--tier":
            tier = argv.pop(0)
        elif a == "--replay":
            replay = argv.pop(0)
        elif a == "--repo":
            root = argv.pop(0)
        elif a == "--no-evidence":
            write_ev = False
    try:
        rc, _, _ = run_property(pid, tier, replay, root, write_evidence=write_ev)
    except Exception:
        print("ANALYSIS-ERROR property=%s runner crashed:" % pid)
        traceback.print_exc()
        return 2
    if rc == 0 and tier == "thorough":
        try:
            from . import selftest
            rc = selftest.run(pid)
        except Exception:
            print("ANALYSIS-ERROR property=%s self-test crashed:" % pid)
            traceback.print_exc()
            return 2
    return rc
