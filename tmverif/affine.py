"""Linear-integer constraint domain used by the guard / window / length rules.

A *linear form* is  const + sum(coef * atom)  with integer coefficients, atoms
are opaque strings naming symbolic integer quantities of the analysed code
(``X.shape[-1]``, ``start``, ``len(motif)`` ...).  A *constraint* is a linear
form ``e`` meaning ``e >= 0``.

Decision procedures (no SMT/SAT solver, nothing of /repo is executed):

* ``entails(G, e)``  -- proves  G |- e >= 0  by refuting  G and e <= -1  with
  Fourier-Motzkin elimination over the integers' rational relaxation, each
  derived row normalised by its gcd with the constant rounded (Chvatal cut), so
  parity facts such as  2q <= a <= 2q+1  are used soundly.
* ``find_model(G, e, scope)`` -- bounded search for an integer assignment of the
  atoms satisfying G and e <= -1 (a counter-model of the *abstracted guard
  system*).  Used to exhibit a witness before a VIOLATION is reported.
"""
from fractions import Fraction
from math import gcd
from itertools import product as _product


class Lin:
    __slots__ = ("c", "t")

    def __init__(self, c=0, t=None):
        self.c = c
        self.t = {k: v for k, v in (t or {}).items() if v != 0}

    @staticmethod
    def atom(name):
        return Lin(0, {name: 1})

    def __add__(self, o):
        o = _lin(o)
        t = dict(self.t)
        for k, v in o.t.items():
            t[k] = t.get(k, 0) + v
        return Lin(self.c + o.c, t)

    __radd__ = __add__

    def __neg__(self):
        return Lin(-self.c, {k: -v for k, v in self.t.items()})

    def __sub__(self, o):
        return self + (-_lin(o))

    def __rsub__(self, o):
        return _lin(o) - self

    def scale(self, k):
        return Lin(self.c * k, {a: v * k for a, v in self.t.items()})

    def is_const(self):
        return not self.t

    def atoms(self):
        return set(self.t)

    def key(self):
        return (self.c, tuple(sorted(self.t.items())))

    def __eq__(self, o):
        return isinstance(o, Lin) and self.key() == o.key()

    def __hash__(self):
        return hash(self.key())

    def subst(self, m):
        """substitute atoms by linear forms"""
        r = Lin(self.c)
        for a, v in self.t.items():
            r = r + (m[a].scale(v) if a in m else Lin(0, {a: v}))
        return r

    def eval(self, asg):
        return self.c + sum(v * asg[a] for a, v in self.t.items())

    def __repr__(self):
        parts = []
        for a, v in sorted(self.t.items()):
            if v == 1:
                parts.append("+ " + a)
            elif v == -1:
                parts.append("- " + a)
            elif v < 0:
                parts.append("- %d*%s" % (-v, a))
            else:
                parts.append("+ %d*%s" % (v, a))
        if self.c or not parts:
            parts.append(("+ %d" % self.c) if self.c >= 0 else ("- %d" % -self.c))
        s = " ".join(parts)
        return s[2:] if s.startswith("+ ") else s


def _lin(x):
    return x if isinstance(x, Lin) else Lin(x)


def ge(a, b):
    """constraint a >= b"""
    return _lin(a) - _lin(b)


def le(a, b):
    return _lin(b) - _lin(a)


def gt(a, b):
    return _lin(a) - _lin(b) - 1


def lt(a, b):
    return _lin(b) - _lin(a) - 1


def eq(a, b):
    return [ge(a, b), le(a, b)]


def _norm(row):
    """row: (const, {atom: coef}) meaning >= 0; integer normalisation with cut"""
    c, t = row
    t = {k: v for k, v in t.items() if v != 0}
    if not t:
        return (c, t)
    g = 0
    for v in t.values():
        g = gcd(g, abs(v))
    if g > 1:
        t = {k: v // g for k, v in t.items()}
        # c + g*S >= 0 with S integer  =>  S >= ceil(-c/g)  <=>  S + floor(c/g) >= 0
        c = c // g
    return (c, t)


def _infeasible(rows, max_rows=4000):
    """Fourier-Motzkin with integer cuts; True iff proven infeasible."""
    rows = [_norm((r.c, dict(r.t))) for r in rows]
    seen = set()
    uniq = []
    for r in rows:
        k = (r[0], tuple(sorted(r[1].items())))
        if k not in seen:
            seen.add(k)
            uniq.append(r)
    rows = uniq
    while True:
        for c, t in rows:
            if not t and c < 0:
                return True
        atoms = set()
        for c, t in rows:
            atoms |= set(t)
        if not atoms:
            return False
        # pick atom minimising pos*neg
        best = None
        for a in atoms:
            p = sum(1 for c, t in rows if t.get(a, 0) > 0)
            n = sum(1 for c, t in rows if t.get(a, 0) < 0)
            sc = p * n - p - n
            if best is None or sc < best[0]:
                best = (sc, a)
        a = best[1]
        pos = [r for r in rows if r[1].get(a, 0) > 0]
        neg = [r for r in rows if r[1].get(a, 0) < 0]
        rest = [r for r in rows if r[1].get(a, 0) == 0]
        new = list(rest)
        seen = set((r[0], tuple(sorted(r[1].items()))) for r in new)
        for pc, pt in pos:
            for nc, nt in neg:
                ka, kb = -nt[a], pt[a]
                t = {}
                for k, v in pt.items():
                    t[k] = t.get(k, 0) + v * ka
                for k, v in nt.items():
                    t[k] = t.get(k, 0) + v * kb
                row = _norm((pc * ka + nc * kb, t))
                key = (row[0], tuple(sorted(row[1].items())))
                if key not in seen:
                    seen.add(key)
                    new.append(row)
        rows = new
        if len(rows) > max_rows:
            return False  # give up: not proven


def entails(G, e):
    """G: iterable of Lin (each >= 0);  proves e >= 0 (only the cone of influence of e is used)."""
    if e.is_const():
        return e.c >= 0
    return _infeasible(cone(G, e) + [(-e) - 1])


class SearchLimit(Exception):
    pass


def consistent_model(G, extra, scope=(-3, 8), atoms_first=(), limit=300000, fixed=None):
    """search an integer model of G + extra over the scope.  Returns dict or None (no model in the scope);
    raises SearchLimit when the enumeration budget is exhausted."""
    rows = list(G) + list(extra)
    atoms = set()
    for r in rows:
        atoms |= r.atoms()
    fixed = fixed or {}
    # order atoms so that constraints become checkable early: most constrained first
    deg = {a: sum(1 for r in rows if a in r.t) for a in atoms}
    order = [a for a in atoms_first if a in atoms and a not in fixed] + sorted(
        (a for a in atoms if a not in atoms_first and a not in fixed), key=lambda a: (-deg[a], a))
    lo, hi = scope
    asg = dict(fixed)
    count = [0]
    pos = {a: i for i, a in enumerate(order)}
    buckets = [[] for _ in order]
    for r in rows:
        free = [a for a in r.atoms() if a not in fixed]
        if not free:
            if r.eval(asg) < 0:
                return None
        else:
            buckets[max(pos[a] for a in free)].append(r)
    # try values near zero first
    vals = sorted(range(lo, hi + 1), key=lambda v: (abs(v), v))

    def rec(i):
        if i == len(order):
            return True
        a = order[i]
        for v in vals:
            count[0] += 1
            if count[0] > limit:
                raise SearchLimit()
            asg[a] = v
            ok = True
            for r in buckets[i]:
                if r.eval(asg) < 0:
                    ok = False
                    break
            if ok and rec(i + 1):
                return True
        asg.pop(a, None)
        return False

    if rec(0):
        return dict(asg)
    return None


def cone(G, e):
    """constraints of G transitively sharing atoms with e (cone of influence)"""
    rel = set(e.atoms())
    G = list(G)
    changed = True
    while changed:
        changed = False
        for g in G:
            a = g.atoms()
            if a & rel and not a <= rel:
                rel |= a
                changed = True
    return [g for g in G if g.atoms() and g.atoms() <= rel]


def find_counter_model(G, e, scope=(-3, 8), atoms_first=()):
    """model of G and e <= -1"""
    return consistent_model(G, [(-e) - 1], scope=scope, atoms_first=atoms_first)


def decide(G, e, scope=(-3, 8)):
    """-> ('PROVED', None) | ('REFUTED', model) | ('BOUNDED', None) | ('UNKNOWN', None)
    BOUNDED: not proved by FM but no counter-model in the scope; UNKNOWN: search budget exhausted.
    Only the cone of influence of e in G is used (sound for both directions when the rest of G is satisfiable,
    which holds for the constraints of a feasible path)."""
    if e.is_const():
        return ("PROVED", None) if e.c >= 0 else ("REFUTED", {})
    Gc = cone(G, e)
    if entails(Gc, e):
        return ("PROVED", None)
    try:
        m = find_counter_model(Gc, e, scope=scope)
    except SearchLimit:
        return ("UNKNOWN", None)
    if m is not None:
        return ("REFUTED", m)
    return ("BOUNDED", None)
