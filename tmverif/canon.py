"""Canonicalisation of a function towards its confirmed reference version (false-alarm hardening).

Many rules name the locals of the function they analyse (`X_shufs`, `loss_prev`, `d`, ...) - the names are those of the tree the rule
instances were confirmed on.  A maintainer who renames a local, flips a comparison or hoists a value into a temporary does not change
behaviour, so the rules must not fire.  Instead of teaching every rule every spelling, the function is rewritten - before any rule looks at
it - by transformations that are each semantics-preserving ON THEIR OWN:

  N1  range(0, e)             ->  range(e)
  N2  c + e  (c int constant)  ->  e + c
  N7  torch.concatenate(..)   ->  torch.cat(..) ;  x.clone() -> torch.clone(x)      (documented aliases)
  N5  t = E (t unknown to the reference, bound once, E pure, operands not modified)  ->  uses of t replaced by E
  N6  h(args) with h a new module-level helper that the reference module does not define  ->  h's body inlined (fresh names)
  N9  a, b = e1, e2           ->  a = e1 ; b = e2     (no target occurs on the right-hand side)
  N14 if True: B -> B ; if False: .. -> (else-branch or nothing)
  N12 e + 0, e * 1 inside indices -> e ;  N13 t = p (plain name, p not rebound afterwards): t -> p
  N11 v = A[i] (A has >= 2 axes, i integer indices): v[j, k] -> A[i, j, k], v -> A[i]   (basic indexing yields a view)
  N10 loop body / function body ending in `if C: BODY` (no else)  ->  `if not C: continue` (`return`) ; BODY
  N3  t = E ; return t        ->  return E            (t assigned once, used once, adjacent statements)
      t = E ; T = t           ->  T = E               (same conditions; python evaluates the right-hand side first anyway)
  A1  consistent, injective renaming of local variables (alpha-conversion; parameters, globals and attribute names are never touched)
  A2  a OP b                  ->  b OP' a             (comparison flipped, single operator)
  A3  a + b / a * b           ->  b + a / b * a       (only when both operands are pure integer-index expressions: inside subscripts, slices, range())
  A4  if c: A else: B         ->  if not-c: B else: A (c one comparison: the operator is negated)

The reference (the package source the rule tables were confirmed on, /verif/reference) is used ONLY to choose among these rewrites - which
new name a local gets, whether a comparison is flipped - by aligning the two syntax trees (statement lists by longest common subsequence of
name-abstracted shapes, expressions in parallel) and letting aligned Name nodes vote.  Whatever the alignment decides, the result is
equivalent to the input program, so a verdict on the canonical form is a verdict on the input; a poor alignment can only make a rule
fail to recognise a shape (ANALYSIS-ERROR), never report a violation that the original does not have or hide one that it has.
"""
import ast, copy, difflib, os

FLIP = {ast.Lt: ast.Gt, ast.LtE: ast.GtE, ast.Gt: ast.Lt, ast.GtE: ast.LtE, ast.Eq: ast.Eq, ast.NotEq: ast.NotEq}
NEG = {ast.Lt: ast.GtE, ast.LtE: ast.Gt, ast.Gt: ast.LtE, ast.GtE: ast.Lt, ast.Eq: ast.NotEq, ast.NotEq: ast.Eq,
       ast.Is: ast.IsNot, ast.IsNot: ast.Is, ast.In: ast.NotIn, ast.NotIn: ast.In}
SCOPES = (ast.FunctionDef, ast.AsyncFunctionDef, ast.Lambda, ast.ClassDef)
REFERENCE_DIR = os.path.join(os.path.dirname(os.path.dirname(os.path.abspath(__file__))), "reference")


# ------------------------------------------------------------------ facts about one function
def params_of(func):
    a = func.args
    out = {x.arg for x in a.args + a.kwonlyargs + a.posonlyargs}
    if a.vararg:
        out.add(a.vararg.arg)
    if a.kwarg:
        out.add(a.kwarg.arg)
    return out


def locals_of(func):
    """names bound inside the function (any nested scope included) that are not its parameters and not declared global/nonlocal"""
    bound, banned = set(), set(params_of(func))
    for n in ast.walk(func):
        if isinstance(n, ast.Name) and isinstance(n.ctx, (ast.Store, ast.Del)):
            bound.add(n.id)
        elif isinstance(n, (ast.Global, ast.Nonlocal)):
            banned.update(n.names)
        elif isinstance(n, (ast.Import, ast.ImportFrom)):
            for a in n.names:
                banned.add((a.asname or a.name).split(".")[0])
        elif isinstance(n, ast.ExceptHandler) and n.name:
            banned.add(n.name)
        elif isinstance(n, ast.arg) and n is not None:
            pass
        elif isinstance(n, SCOPES) and n is not func:
            if hasattr(n, "name"):
                banned.add(n.name)
    # parameters of nested functions / lambdas with the same spelling are renamed together with the Name nodes
    return bound - banned


def pure_index(e):
    for n in ast.walk(e):
        if isinstance(n, ast.Call):
            if ast.unparse(n.func) not in ("len", "int", "min", "max", "abs", "uint64", "numpy.uint64", "numpy.int64"):
                return False
        elif isinstance(n, (ast.NamedExpr, ast.Yield, ast.YieldFrom, ast.Await, ast.Lambda, ast.ListComp, ast.SetComp, ast.DictComp,
                            ast.GeneratorExp, ast.IfExp, ast.BoolOp, ast.List, ast.Tuple, ast.Dict, ast.Set, ast.JoinedStr)):
            return False
        elif isinstance(n, ast.Constant) and not isinstance(n.value, (int, float)) :
            return False
    return True


def index_context_ids(func):
    """ids of BinOp nodes inside a subscript index / slice bound / range() argument"""
    out = set()
    for n in ast.walk(func):
        roots = []
        if isinstance(n, ast.Subscript):
            roots.append(n.slice)
        elif isinstance(n, ast.Call) and isinstance(n.func, ast.Name) and n.func.id in ("range", "prange", "trange"):
            roots += n.args
        elif isinstance(n, ast.Call) and isinstance(n.func, ast.Attribute) and n.func.attr == "prange":
            roots += n.args
        for r in roots:
            for x in ast.walk(r):
                if isinstance(x, ast.BinOp):
                    out.add(id(x))
    return out


# ------------------------------------------------------------------ N1-N3: reference-free normal forms
class _Normalise(ast.NodeTransformer):
    def visit_Call(self, n):
        self.generic_visit(n)
        # N7: documented aliases of the torch API
        if isinstance(n.func, ast.Attribute) and isinstance(n.func.value, ast.Name) and n.func.value.id == "torch" and n.func.attr == "concatenate":
            n.func.attr = "cat"
        d = None
        try:
            d = ast.unparse(n.func)
        except Exception:
            pass
        # default keyword arguments of the torch API written out: torch.cat(x, dim=0) == torch.cat(x)
        if d in ("torch.cat", "torch.stack") and len(n.args) == 2 and not n.keywords and isinstance(n.args[1], ast.Constant) and \
                n.args[1].value == 0 and not isinstance(n.args[1].value, bool):
            n.args = n.args[:1]
        if d in ("torch.cat", "torch.stack") and len(n.args) == 1:
            n.keywords = [k for k in n.keywords if not (k.arg in ("dim", "axis") and isinstance(k.value, ast.Constant) and k.value.value == 0)]
        # x.to(torch.<dtype>) == x.type(torch.<dtype>) ; x.expand(y.shape) == x.expand_as(y)
        if isinstance(n.func, ast.Attribute) and n.func.attr == "to" and len(n.args) == 1 and not n.keywords and \
                isinstance(n.args[0], ast.Attribute) and isinstance(n.args[0].value, ast.Name) and n.args[0].value.id == "torch" and \
                n.args[0].attr in ("int64", "int32", "int8", "float32", "float64", "bool", "long", "float", "uint8", "int16", "float16"):
            n.func.attr = "type"
        if isinstance(n.func, ast.Attribute) and n.func.attr == "expand" and len(n.args) == 1 and not n.keywords and \
                isinstance(n.args[0], ast.Attribute) and n.args[0].attr == "shape":
            n.func.attr = "expand_as"
            n.args = [n.args[0].value]
        # torch.zeros(a, b) == torch.zeros((a, b))   (sizes given as separate positional arguments)
        if d in ("torch.zeros", "torch.ones", "torch.empty") and len(n.args) >= 2 and not any(isinstance(a, ast.Starred) for a in n.args):
            n.args = [ast.copy_location(ast.Tuple(elts=list(n.args), ctx=ast.Load()), n)]
        # N16: x.size(k) == x.shape[k]  (torch; numpy's .size is not callable, so an int-literal call is the torch accessor)
        if isinstance(n.func, ast.Attribute) and n.func.attr == "size" and len(n.args) == 1 and not n.keywords:
            a0 = n.args[0]
            lit = a0.operand if isinstance(a0, ast.UnaryOp) and isinstance(a0.op, ast.USub) else a0
            if isinstance(lit, ast.Constant) and isinstance(lit.value, int) and not isinstance(lit.value, bool):
                return ast.copy_location(ast.Subscript(value=ast.copy_location(ast.Attribute(value=n.func.value, attr="shape", ctx=ast.Load()), n),
                                                       slice=a0, ctx=ast.Load()), n)
        if isinstance(n.func, ast.Attribute) and n.func.attr == "clone" and not n.args and not n.keywords and \
                not (isinstance(n.func.value, ast.Name) and n.func.value.id == "torch"):
            n = ast.copy_location(ast.Call(func=ast.Attribute(value=ast.Name(id="torch", ctx=ast.Load()), attr="clone", ctx=ast.Load()),
                                           args=[n.func.value], keywords=[]), n)
            return n
        if isinstance(n.func, ast.Name) and n.func.id in ("range", "prange", "trange") or \
                (isinstance(n.func, ast.Attribute) and n.func.attr == "prange"):
            if len(n.args) == 2 and not n.keywords and isinstance(n.args[0], ast.Constant) and n.args[0].value == 0 \
                    and not isinstance(n.args[0].value, bool):
                n.args = [n.args[1]]
        return n

    def _comp(self, n):
        self.generic_visit(n)
        # [f(v) for v in list(zip(a, b))] == [f(v) for v in zip(a, b)]: the snapshot taken by list() / tuple() is only observable when the
        # comprehension itself changes what is being iterated; required: the zipped operands are plain names that the element / condition
        # expressions only read (no method call on them, not passed whole to a call)
        for g in n.generators:
            it = g.iter
            if isinstance(it, ast.Call) and isinstance(it.func, ast.Name) and it.func.id in ("list", "tuple") and len(it.args) == 1 and \
                    not it.keywords and isinstance(it.args[0], ast.Call) and isinstance(it.args[0].func, ast.Name) and \
                    it.args[0].func.id in ("zip", "range", "enumerate", "reversed", "map"):
                inner = it.args[0]
                ops = []
                ok = True
                for a in inner.args:
                    a = a.value if isinstance(a, ast.Starred) else a
                    if isinstance(a, ast.Name):
                        ops.append(a.id)
                    elif not isinstance(a, ast.Constant):
                        ok = ok and _arg_pure(a) and not any(isinstance(x, ast.Call) for x in ast.walk(a))
                        ops += [x.id for x in ast.walk(a) if isinstance(x, ast.Name)]
                parts = [getattr(n, "elt", None), getattr(n, "key", None), getattr(n, "value", None)] + list(g.ifs)
                if ok and inner.func.id != "map" and not inner.keywords and _untouched([ast.Expr(value=p_) for p_ in parts if p_ is not None], None, names=set(ops)):
                    g.iter = inner
        return n

    visit_ListComp = visit_SetComp = visit_GeneratorExp = visit_DictComp = _comp

    def visit_Subscript(self, n):
        self.generic_visit(n)
        # x[None, :, :] == x[None]  (trailing full slices select everything)
        if isinstance(n.slice, ast.Tuple) and len(n.slice.elts) >= 2:
            e = list(n.slice.elts)
            while len(e) > 1 and isinstance(e[-1], ast.Slice) and e[-1].lower is None and e[-1].upper is None and e[-1].step is None:
                e.pop()
            if len(e) != len(n.slice.elts):
                n.slice = e[0] if len(e) == 1 else ast.copy_location(ast.Tuple(elts=e, ctx=ast.Load()), n.slice)
        return n

    def visit_Compare(self, n):
        self.generic_visit(n)
        # N24: a chained comparison is the conjunction of its links; the shared operands are evaluated once, which only matters when they
        # have effects, so the split is done for pure operands only:  a <= b < c  ==  a <= b and b < c
        if len(n.ops) >= 2 and all(_arg_pure(c) and not any(isinstance(x, ast.Call) for x in ast.walk(c)) for c in n.comparators[:-1]):
            ops = [n.left] + list(n.comparators)
            links = [ast.copy_location(ast.Compare(left=copy.deepcopy(ops[i]) if i else ops[i], ops=[n.ops[i]], comparators=[copy.deepcopy(ops[i + 1]) if i + 1 < len(ops) - 1 else ops[i + 1]]), n)
                     for i in range(len(n.ops))]
            return ast.copy_location(ast.BoolOp(op=ast.And(), values=links), n)
        return n

    def visit_BinOp(self, n):
        self.generic_visit(n)
        if isinstance(n.op, ast.Add) and isinstance(n.left, ast.Constant) and isinstance(n.left.value, int) \
                and not isinstance(n.left.value, bool) and not isinstance(n.right, ast.Constant):
            n.left, n.right = n.right, n.left
        return n


def _uses(func, name):
    return [x for x in ast.walk(func) if isinstance(x, ast.Name) and x.id == name]


def _forward_temps(func):
    """N3 on every statement list of the function"""
    changed = True
    while changed:
        changed = False
        for p in ast.walk(func):
            for f in ("body", "orelse", "finalbody"):
                b = getattr(p, f, None)
                if not isinstance(b, list):
                    continue
                for i in range(len(b) - 1):
                    s, t = b[i], b[i + 1]
                    if not (isinstance(s, ast.Assign) and len(s.targets) == 1 and isinstance(s.targets[0], ast.Name)):
                        continue
                    nm = s.targets[0].id
                    us = _uses(func, nm)
                    if len(us) != 2:          # the store and one load
                        continue
                    fwd = None
                    if isinstance(t, ast.Return) and isinstance(t.value, ast.Name) and t.value.id == nm:
                        fwd = "ret"
                    elif isinstance(t, ast.Assign) and isinstance(t.value, ast.Name) and t.value.id == nm and \
                            not any(isinstance(x, ast.Name) and x.id == nm for tg in t.targets for x in ast.walk(tg)):
                        fwd = "asg"
                    if fwd:
                        t.value = s.value
                        del b[i]
                        changed = True
                        break
                if changed:
                    break
            if changed:
                break


def _split_tuple_assigns(func):
    """N9: a, b = e1, e2  ->  a = e1 ; b = e2   when no target name occurs in any right-hand side (not a swap) and the right-hand sides are
    pure (their relative evaluation order is unobservable)"""
    for p in ast.walk(func):
        for f in ("body", "orelse", "finalbody"):
            b = getattr(p, f, None)
            if not isinstance(b, list):
                continue
            i = 0
            while i < len(b):
                s = b[i]
                if isinstance(s, ast.Assign) and len(s.targets) == 1 and isinstance(s.targets[0], ast.Tuple) and isinstance(s.value, ast.Tuple) \
                        and len(s.targets[0].elts) == len(s.value.elts) and all(isinstance(t, ast.Name) for t in s.targets[0].elts) \
                        and not any(isinstance(v, ast.Starred) for v in s.value.elts):
                    tn = {t.id for t in s.targets[0].elts}
                    rn = {x.id for v in s.value.elts for x in ast.walk(v) if isinstance(x, ast.Name)}
                    if not (tn & rn) and len(tn) == len(s.targets[0].elts):
                        new = [ast.copy_location(ast.Assign(targets=[t], value=v, lineno=s.lineno), s) for t, v in zip(s.targets[0].elts, s.value.elts)]
                        b[i:i + 1] = new
                        i += len(new)
                        continue
                i += 1


def _negate(test):
    if isinstance(test, ast.UnaryOp) and isinstance(test.op, ast.Not):
        return test.operand
    if isinstance(test, ast.Compare) and len(test.ops) == 1 and type(test.ops[0]) in NEG and \
            not isinstance(test.ops[0], (ast.Lt, ast.LtE, ast.Gt, ast.GtE)):
        # == / != / is / in have exact complements; the order comparisons do not for NaN, so they keep an explicit `not`
        return ast.copy_location(ast.Compare(left=test.left, ops=[NEG[type(test.ops[0])]()], comparators=test.comparators), test)
    return ast.copy_location(ast.UnaryOp(op=ast.Not(), operand=test), test)


def _tail_if_to_guard(func):
    """N10: a loop body (or the function body) that ENDS in `if C: BODY` without else becomes `if not C: continue` (`return`) followed by
    BODY - the guard-clause form.  Applied repeatedly from the outside in, so nested tail-ifs become a sequence of guards."""
    changed = True
    while changed:
        changed = False
        for p in ast.walk(func):
            if isinstance(p, (ast.For, ast.While)):
                b, exit_ = p.body, ast.Continue
            elif p is func:
                b, exit_ = p.body, ast.Return
            else:
                continue
            if not b:
                continue
            s = b[-1]
            if isinstance(s, ast.If) and not s.orelse and len(s.body) >= 2 and not isinstance(s.body[-1], (ast.Return, ast.Raise, ast.Continue, ast.Break)):
                if p is func and any(isinstance(n, ast.Return) and n.value is not None for n in ast.walk(func)):
                    continue        # a function that returns values: an added bare return would change nothing, but keep its shape
                g = ast.copy_location(ast.If(test=_negate(s.test), body=[ast.copy_location(exit_(), s)], orelse=[]), s)
                b[-1:] = [g] + s.body
                changed = True
                break


def _simplify_index_arith(func):
    """N12: inside subscripts, slices and range(): e + 0, 0 + e, e - 0, e * 1, 1 * e  ->  e   (integer index arithmetic only: elsewhere
    `x + 0` may be a deliberate copy of a tensor)"""
    for _ in range(4):
        ids = index_context_ids(func)
        changed = False

        class _S(ast.NodeTransformer):
            def visit_BinOp(self, n):
                nonlocal changed
                self.generic_visit(n)
                if id(n) not in ids:
                    return n

                def is_c(x, v):
                    return isinstance(x, ast.Constant) and isinstance(x.value, int) and not isinstance(x.value, bool) and x.value == v
                if isinstance(n.op, ast.Add) and is_c(n.right, 0):
                    changed = True
                    return n.left
                if isinstance(n.op, ast.Add) and is_c(n.left, 0):
                    changed = True
                    return n.right
                if isinstance(n.op, ast.Sub) and is_c(n.right, 0):
                    changed = True
                    return n.left
                if isinstance(n.op, ast.Mult) and is_c(n.right, 1):
                    changed = True
                    return n.left
                if isinstance(n.op, ast.Mult) and is_c(n.left, 1):
                    changed = True
                    return n.right
                return n
        _S().visit(func)
        if not changed:
            break


def _fold_constant_ifs(func):
    """N14: `if True: BODY [else: ..]` -> BODY ; `if False: .. [else: BODY]` -> BODY (or nothing)"""
    changed = True
    while changed:
        changed = False
        for p in ast.walk(func):
            for f in ("body", "orelse", "finalbody"):
                b = getattr(p, f, None)
                if not isinstance(b, list):
                    continue
                for i, s in enumerate(b):
                    if isinstance(s, ast.If) and isinstance(s.test, ast.Constant) and isinstance(s.test.value, bool):
                        repl = s.body if s.test.value else s.orelse
                        b[i:i + 1] = repl if (repl or len(b) > 1) else [ast.copy_location(ast.Pass(), s)]
                        changed = True
                        break
                if changed:
                    break
            if changed:
                break


def normalise(func):
    _Normalise().visit(func)
    _fold_constant_ifs(func)
    _simplify_index_arith(func)
    _split_tuple_assigns(func)
    _forward_temps(func)
    ast.fix_missing_locations(func)


# ------------------------------------------------------------------ shapes
class _Abstract(ast.NodeTransformer):
    def __init__(self, locs):
        self.locs = locs

    def visit_Name(self, n):
        if n.id in self.locs:
            return ast.copy_location(ast.Name(id="_L", ctx=n.ctx), n)
        return n

    def visit_arg(self, n):
        if n.arg in self.locs:
            return ast.copy_location(ast.arg(arg="_L", annotation=None), n)
        return n


def shape(node, locs, shallow=False):
    if shallow and isinstance(node, (ast.For, ast.While, ast.If, ast.With, ast.Try)):
        c = copy.copy(node)
        for f in ("body", "orelse", "finalbody", "handlers"):
            if hasattr(c, f):
                setattr(c, f, [])
        node = c
    c = _Abstract(locs).visit(copy.deepcopy(node))
    return ast.dump(c, annotate_fields=False)


# ------------------------------------------------------------------ alignment
class Aligner:
    def __init__(self, cfunc, rfunc):
        self.c, self.r = cfunc, rfunc
        self.cl, self.rl = locals_of(cfunc), locals_of(rfunc)
        self.votes = {}
        self.idx_ctx = index_context_ids(cfunc)
        self.actions = []
        self._tail = {}
        # locals whose only definition is a view / alias of another local (`v = A[i]`, `v = A`): such a local is never A itself
        self.view_of = {}
        stores = {}
        for n in ast.walk(cfunc):
            if isinstance(n, ast.Name) and isinstance(n.ctx, ast.Store):
                stores[n.id] = stores.get(n.id, 0) + 1
        for n in ast.walk(cfunc):
            if isinstance(n, ast.Assign) and len(n.targets) == 1 and isinstance(n.targets[0], ast.Name) and stores.get(n.targets[0].id) == 1:
                b = n.value
                while isinstance(b, (ast.Subscript, ast.Attribute)):
                    b = b.value
                if isinstance(b, ast.Name) and isinstance(n.value, (ast.Subscript, ast.Name)):
                    self.view_of[n.targets[0].id] = b.id

    def vote(self, a, b):
        if a in self.cl and b in self.rl:
            self.votes[(a, b)] = self.votes.get((a, b), 0) + 1

    def cs(self, n):
        return shape(n, self.cl)

    def rs(self, n):
        return shape(n, self.rl)

    def variants(self, cs, kind, rs=()):
        """behaviour-preserving re-shapings of a loop body / function body: the tail `if C: BODY` as guard clause, and a guard clause
        `if T: continue|return` (no else) followed by REST as `if not T: REST`"""
        out = []
        exit_ = ast.Continue if kind == "loop" else ast.Return
        # a re-shaping is only considered when the reference block HAS the target shape: rules written for the reference must not be shown a
        # guard clause (or a nested tail-if) that neither the reference nor the analysed code contains
        ref_has_guard = any(isinstance(r, ast.If) and not r.orelse and len(r.body) == 1 and isinstance(r.body[0], exit_) for r in rs)
        ref_has_tail_if = bool(rs) and isinstance(rs[-1], ast.If) and not rs[-1].orelse and rs[-1].body and \
            not isinstance(rs[-1].body[-1], (ast.Return, ast.Raise, ast.Continue, ast.Break))
        if not ref_has_guard:
            cs_guardable = False
        else:
            cs_guardable = True
        if cs_guardable and cs and isinstance(cs[-1], ast.If) and not cs[-1].orelse and cs[-1].body and \
                not isinstance(cs[-1].body[-1], (ast.Return, ast.Raise, ast.Continue, ast.Break)):
            s = cs[-1]
            g = ast.copy_location(ast.If(test=_negate(s.test), body=[ast.copy_location(exit_(), s)], orelse=[]), s)
            out.append(("guard@%d" % s.lineno, cs[:-1] + [g] + list(s.body)))
        for k, s in enumerate(cs[:-1] if ref_has_tail_if else []):
            if isinstance(s, ast.If) and not s.orelse and len(s.body) == 1 and isinstance(s.body[0], exit_) and \
                    (kind == "loop" or s.body[0].value is None):
                rest = cs[k + 1:]
                n = ast.copy_location(ast.If(test=_negate(s.test), body=rest, orelse=[]), s)
                out.append(("nest@%d" % s.lineno, cs[:k] + [n]))
        return out

    def stmts(self, cs, rs, kind=None, owner=None):
        if kind and owner is not None:
            def ratio(v):
                return difflib.SequenceMatcher(None, [shape(x, self.cl, shallow=True) for x in v],
                                               [shape(x, self.rl, shallow=True) for x in rs], autojunk=False).ratio()
            base = ratio(cs)
            best = None
            for label, v in self.variants(cs, kind, rs):
                r_ = ratio(v)
                if r_ > base + 1e-9 and (best is None or r_ > best[0]):
                    best = (r_, label, v)
            if best is not None:
                owner[:] = best[2]
                cs = owner
                self.actions.append(best[1])
                return self.stmts(cs, rs, kind, owner)
        ck = [shape(s, self.cl, shallow=True) for s in cs]
        rk = [shape(s, self.rl, shallow=True) for s in rs]
        sm = difflib.SequenceMatcher(None, ck, rk, autojunk=False)
        pairs = []
        ci = ri = 0
        for a, b, size in sm.get_matching_blocks():
            # unmatched gap before the block: pair positionally when both sides have the same number of statements of the same kinds
            gc, gr = cs[ci:a], rs[ri:b]
            if gc and len(gc) == len(gr) and all(type(x) is type(y) for x, y in zip(gc, gr)):
                pairs += list(zip(gc, gr))
            for k in range(size):
                pairs.append((cs[a + k], rs[b + k]))
            ci, ri = a + size, b + size
        for c, r in pairs:
            if kind and cs and c is cs[-1] and isinstance(c, ast.If):
                self._tail[id(c)] = kind      # falling out of an arm of the block's last `if` ends the iteration / the function as well
            self.node(c, r)

    def node(self, c, r):
        if type(c) is not type(r):
            return
        if isinstance(c, ast.Name):
            self.vote(c.id, r.id)
            return
        if isinstance(c, ast.arg):
            self.vote(c.arg, r.arg)
            return
        if isinstance(c, ast.Compare) and len(c.ops) == 1 and len(r.ops) == 1:
            if type(c.ops[0]) is not type(r.ops[0]) or (self.cs(c.left) != self.rs(r.left) and type(c.ops[0]) in FLIP):
                if FLIP.get(type(c.ops[0])) is type(r.ops[0]) and self.cs(c.left) == self.rs(r.comparators[0]) \
                        and self.cs(c.comparators[0]) == self.rs(r.left):
                    c.left, c.comparators[0] = c.comparators[0], c.left
                    c.ops = [FLIP[type(c.ops[0])]()]
                    self.actions.append("flip@%d" % getattr(c, "lineno", 0))
        if isinstance(c, ast.BinOp) and type(c.op) is type(r.op) and isinstance(c.op, (ast.Add, ast.Mult)) and id(c) in self.idx_ctx:
            if self.cs(c.left) != self.rs(r.left) and self.cs(c.left) == self.rs(r.right) and self.cs(c.right) == self.rs(r.left) \
                    and pure_index(c.left) and pure_index(c.right):
                c.left, c.right = c.right, c.left
                self.actions.append("commute@%d" % getattr(c, "lineno", 0))
        if isinstance(c, ast.If) and c.orelse and r.orelse and isinstance(c.test, ast.Compare) and len(c.test.ops) == 1 \
                and isinstance(r.test, ast.Compare) and len(r.test.ops) == 1 and type(c.test.ops[0]) in NEG:
            if type(c.test.ops[0]) is not type(r.test.ops[0]) and NEG[type(c.test.ops[0])] is type(r.test.ops[0]) \
                    and self.cs(c.test.left) == self.rs(r.test.left) and self.cs(c.test.comparators[0]) == self.rs(r.test.comparators[0]):
                kb = [shape(s, self.cl, shallow=True) for s in c.body]
                ko = [shape(s, self.cl, shallow=True) for s in c.orelse]
                rb = [shape(s, self.rl, shallow=True) for s in r.body]
                ro = [shape(s, self.rl, shallow=True) for s in r.orelse]
                if kb[:1] == ro[:1] and ko[:1] == rb[:1]:
                    c.test.ops = [NEG[type(c.test.ops[0])]()]
                    c.body, c.orelse = c.orelse, c.body
                    self.actions.append("armswap@%d" % getattr(c, "lineno", 0))
        for (fc, vc), (fr, vr) in zip(ast.iter_fields(c), ast.iter_fields(r)):
            if fc != fr:
                return
            if isinstance(vc, list) and isinstance(vr, list):
                if vc and isinstance(vc[0], ast.stmt) or vr and isinstance(vr[0], ast.stmt):
                    kind = "loop" if isinstance(c, (ast.For, ast.While)) and fc == "body" else \
                        (self._tail.get(id(c)) if isinstance(c, ast.If) and fc in ("body", "orelse") else None)
                    self.stmts(vc, vr, kind, vc if kind else None)
                elif len(vc) == len(vr):
                    for x, y in zip(vc, vr):
                        if isinstance(x, ast.AST) and isinstance(y, ast.AST):
                            self.node(x, y)
            elif isinstance(vc, ast.AST) and isinstance(vr, ast.AST):
                self.node(vc, vr)

    def mapping(self):
        """injective map current-local -> reference-local, most votes first; identity when unvoted.  Renaming a local onto a name that is
        ANOTHER local of the current function (a swap / rotation of names) is only done on clear evidence: unanimous votes (>= 2, none for keeping its own name), or at least
        3 votes and at least three times the votes for keeping its own name - rules that read names must not be handed a permutation the alignment guessed."""
        out, taken = {}, set()
        own = {}
        for (a, b), v in self.votes.items():
            if a == b:
                own[a] = v
        for (a, b), v in sorted(self.votes.items(), key=lambda kv: (-kv[1], kv[0])):
            if a in out or b in taken:
                continue
            if a != b and self.view_of.get(a) == b:
                continue
            if a != b and b in self.cl:
                unanimous = own.get(a, 0) == 0 and v >= 2
                if not unanimous and (v < 3 or v < 3 * own.get(a, 0)):
                    continue
            out[a] = b
            taken.add(b)
        return out


PURE_METHODS = {"sum", "max", "min", "mean", "argmax", "argmin", "item", "numpy", "any", "all", "abs", "size", "dim", "long", "float", "bool",
                "int", "tolist", "flatten", "reshape", "view", "unsqueeze", "squeeze", "astype", "type", "nansum", "cumsum"}
PURE_FUNCS = {"len", "int", "float", "min", "max", "abs", "numpy.uint64", "numpy.int64", "uint64", "math.floor", "math.log2", "math.log",
              "numpy.nansum", "numpy.sum", "torch.sum", "numpy.abs", "torch.abs"}


def _pure_value(e):
    for n in ast.walk(e):
        if isinstance(n, ast.Call):
            if isinstance(n.func, ast.Attribute) and n.func.attr in PURE_METHODS and not n.func.attr.endswith("_"):
                continue
            if ast.unparse(n.func) in PURE_FUNCS:
                continue
            return False
        if isinstance(n, (ast.NamedExpr, ast.Yield, ast.YieldFrom, ast.Await, ast.Lambda, ast.ListComp, ast.SetComp, ast.DictComp,
                          ast.GeneratorExp)):
            return False
    return True


CASTS = {"numpy.uint64", "numpy.int64", "numpy.int32", "uint64", "int64", "int", "numpy.float64", "float"}


def _cast_rebinds(func):
    """ids of the target Name nodes of `x = cast(x)` statements: the value is unchanged, only its machine type"""
    out = set()
    for n in ast.walk(func):
        if isinstance(n, ast.Assign) and len(n.targets) == 1 and isinstance(n.targets[0], ast.Name) and isinstance(n.value, ast.Call) \
                and ast.unparse(n.value.func) in CASTS and len(n.value.args) == 1 and isinstance(n.value.args[0], ast.Name) \
                and n.value.args[0].id == n.targets[0].id and not n.value.keywords:
            out.add(id(n.targets[0]))
    return out


def _written_names(func):
    """(name -> number of bindings, name -> positions of every write: rebinding, store through the name, in-place method, augmented
    assignment; `x = cast(x)` is not a write)"""
    binds, pos = {}, {}
    casts = _cast_rebinds(func)

    def at(nm, n):
        pos.setdefault(nm, []).append((getattr(n, "lineno", 0), getattr(n, "col_offset", 0)))
    for n in ast.walk(func):
        if isinstance(n, ast.Name) and id(n) in casts:
            continue
        if isinstance(n, ast.Name) and isinstance(n.ctx, (ast.Store, ast.Del)):
            binds[n.id] = binds.get(n.id, 0) + 1
            at(n.id, n)
        elif isinstance(n, (ast.Subscript, ast.Attribute)) and isinstance(n.ctx, (ast.Store, ast.Del)):
            b = n
            while isinstance(b, (ast.Subscript, ast.Attribute)):
                b = b.value
            if isinstance(b, ast.Name):
                at(b.id, n)
        elif isinstance(n, ast.Call) and isinstance(n.func, ast.Attribute) and (n.func.attr.endswith("_") or n.func.attr in
                ("append", "extend", "pop", "insert", "remove", "clear", "sort", "update", "add", "fill")):
            b = n.func.value
            while isinstance(b, (ast.Subscript, ast.Attribute)):
                b = b.value
            if isinstance(b, ast.Name):
                at(b.id, n)
    return binds, pos


def inline_view_aliases(cfunc, rfunc, mapped=()):
    """N11: `v = A[i]` with A an array of at least two axes (it is subscripted with >= 2 indices somewhere, or allocated with a shape of
    >= 2 extents) and i plain integer indices: basic indexing returns a VIEW, so v[j, k] is A[i, j, k] and v is A[i] - also after
    stores through either name.  v must be a local the reference does not have, bound once; A and the names in i must not be rebound
    after the definition; every use of v must follow it in the same block."""
    done = []
    rl = locals_of(rfunc) | params_of(rfunc)
    for _ in range(8):
        binds, writes = _written_names(cfunc)
        ndim2 = set()
        for n in list(ast.walk(cfunc)) + [x for x in ast.walk(rfunc) if isinstance(x, ast.Subscript) and isinstance(x.value, ast.Name)
                                        and x.value.id in params_of(cfunc)]:
            if isinstance(n, ast.Subscript) and isinstance(n.value, ast.Name) and isinstance(n.slice, ast.Tuple) and len(n.slice.elts) >= 2:
                ndim2.add(n.value.id)
            if isinstance(n, ast.Assign) and len(n.targets) == 1 and isinstance(n.targets[0], ast.Name) and isinstance(n.value, ast.Call) \
                    and ast.unparse(n.value.func) in ("numpy.empty", "numpy.zeros", "numpy.ones") and n.value.args \
                    and isinstance(n.value.args[0], ast.Tuple) and len(n.value.args[0].elts) >= 2:
                ndim2.add(n.targets[0].id)
        cand = None
        for p in ast.walk(cfunc):
            for f in ("body", "orelse", "finalbody"):
                b = getattr(p, f, None)
                if not isinstance(b, list):
                    continue
                for i, s in enumerate(b):
                    if not (isinstance(s, ast.Assign) and len(s.targets) == 1 and isinstance(s.targets[0], ast.Name) and isinstance(s.value, ast.Subscript)
                            and isinstance(s.value.value, ast.Name)):
                        continue
                    v, A = s.targets[0].id, s.value.value.id
                    idx = s.value.slice.elts if isinstance(s.value.slice, ast.Tuple) else [s.value.slice]
                    if v in rl or v in mapped or binds.get(v, 0) != 1 or A not in ndim2 or A == v:
                        continue
                    if any(isinstance(x, ast.Slice) for x in idx) or not all(isinstance(x, (ast.Name, ast.Constant)) for x in idx):
                        continue
                    need = len(idx) + 1
                    if not any(isinstance(n, ast.Subscript) and isinstance(n.value, ast.Name) and n.value.id == A and isinstance(n.slice, ast.Tuple)
                               and len(n.slice.elts) >= need for n in list(ast.walk(cfunc)) + list(ast.walk(rfunc))) and len(idx) > 1:
                        continue
                    here = (s.lineno, s.col_offset)
                    names = {A} | {x.id for x in idx if isinstance(x, ast.Name)}
                    casts = _cast_rebinds(cfunc)
                    if any(isinstance(x, ast.Name) and x.id in names and isinstance(x.ctx, ast.Store) and id(x) not in casts and
                           (x.lineno, x.col_offset) > here for x in ast.walk(cfunc)):
                        continue
                    uses = [x for x in ast.walk(cfunc) if isinstance(x, ast.Name) and x.id == v and isinstance(x.ctx, ast.Load)]
                    tail = [x for later in b[i + 1:] for x in ast.walk(later)]
                    if not uses or not all(any(u is x for x in tail) for u in uses):
                        continue
                    cand = (b, i, s, v, A, idx)
                    break
                if cand:
                    break
            if cand:
                break
        if not cand:
            break
        b, i, s, v, A, idx = cand

        class _V(ast.NodeTransformer):
            def visit_Subscript(self, n):
                if isinstance(n.value, ast.Name) and n.value.id == v:
                    n.slice = self.visit(n.slice)
                    more = n.slice.elts if isinstance(n.slice, ast.Tuple) else [n.slice]
                    n.value = ast.copy_location(ast.Name(id=A, ctx=ast.Load()), n.value)
                    n.slice = ast.copy_location(ast.Tuple(elts=[copy.deepcopy(x) for x in idx] + list(more), ctx=ast.Load()), n.slice)
                    return n
                self.generic_visit(n)
                return n

            def visit_Name(self, n):
                if n.id == v and isinstance(n.ctx, ast.Load):
                    return ast.copy_location(copy.deepcopy(s.value), n)
                return n
        del b[i]
        if not b:
            b.append(ast.copy_location(ast.Pass(), s))
        _V().visit(cfunc)
        done.append(v)
    if done:
        ast.fix_missing_locations(cfunc)
    return done


def inline_name_aliases(cfunc, rfunc, mapped=()):
    """N13: `t = p` with p a plain name: t and p denote the same object, whatever is stored through either of them.  t must be a local
    the reference does not have, bound exactly once; p must not be rebound after the definition; every use of t follows the definition in
    the same block (or the definition is at the top level of the function)."""
    done = []
    rl = locals_of(rfunc) | params_of(rfunc)
    for _ in range(8):
        binds, _w = _written_names(cfunc)
        casts = _cast_rebinds(cfunc)
        cand = None
        for p in ast.walk(cfunc):
            for f in ("body", "orelse", "finalbody"):
                b = getattr(p, f, None)
                if not isinstance(b, list):
                    continue
                for i, s in enumerate(b):
                    if not (isinstance(s, ast.Assign) and len(s.targets) == 1 and isinstance(s.targets[0], ast.Name) and isinstance(s.value, ast.Name)):
                        continue
                    t, src = s.targets[0].id, s.value.id
                    if t == src or t in rl or t in mapped or binds.get(t, 0) != 1:
                        continue
                    here = (s.lineno, s.col_offset)
                    if any(isinstance(x, ast.Name) and x.id == src and isinstance(x.ctx, (ast.Store, ast.Del)) and id(x) not in casts
                           and (x.lineno, x.col_offset) > here for x in ast.walk(cfunc)):
                        continue
                    uses = [x for x in ast.walk(cfunc) if isinstance(x, ast.Name) and x.id == t and isinstance(x.ctx, ast.Load)]
                    tail = [x for later in b[i + 1:] for x in ast.walk(later)]
                    if not uses or (b is not cfunc.body and not all(any(u is x for x in tail) for u in uses)):
                        continue
                    if any((x.lineno, x.col_offset) <= here for x in uses):
                        continue
                    cand = (b, i, t, src)
                    break
                if cand:
                    break
            if cand:
                break
        if not cand:
            break
        b, i, t, src = cand
        del b[i]
        if not b:
            b.append(ast.Pass())
        for x in ast.walk(cfunc):
            if isinstance(x, ast.Name) and x.id == t:
                x.id = src
        done.append(t)
    if done:
        ast.fix_missing_locations(cfunc)
    return done


def inline_extra_temps(cfunc, rfunc, mapped=()):
    """N5: `t = E` where t is a local that the reference does not have, t is bound once, E is a pure value expression whose operands are
    parameters or locals that are bound at most once and never stored through / mutated in place, and every use of t follows the
    definition: replace the uses by E and drop the definition.  -> list of inlined names"""
    done = []
    rl = locals_of(rfunc) | params_of(rfunc)
    for _ in range(12):
        writes, muts = _written_names(cfunc)
        pr = params_of(cfunc)
        cand = None
        for p in ast.walk(cfunc):
            for f in ("body", "orelse", "finalbody"):
                b = getattr(p, f, None)
                if not isinstance(b, list):
                    continue
                for i, s in enumerate(b):
                    if not (isinstance(s, ast.Assign) and len(s.targets) == 1 and isinstance(s.targets[0], ast.Name)):
                        continue
                    t = s.targets[0].id
                    if t in rl or t in mapped or writes.get(t, 0) != 1 or not _pure_value(s.value):
                        continue
                    if len(muts.get(t, [])) != 1:
                        continue            # the object bound to t is stored through / mutated in place: its identity matters
                    ops = {x.id for x in ast.walk(s.value) if isinstance(x, ast.Name)}
                    if t in ops:
                        continue
                    here = (s.lineno, s.col_offset)
                    if any(w > here for o in ops for w in muts.get(o, [])):
                        continue            # an operand is written after the definition: the uses might see another value
                    uses = [x for x in ast.walk(cfunc) if isinstance(x, ast.Name) and x.id == t and isinstance(x.ctx, ast.Load)]
                    if not uses or any((x.lineno, x.col_offset) <= here for x in uses):
                        continue
                    # operands written before the definition are fine when the definition is re-executed before every use: it sits in the
                    # function's top-level block, or all uses are in the tail of its own block
                    tail = [x for later in b[i + 1:] for x in ast.walk(later)]
                    if b is not cfunc.body and not all(any(u is x for x in tail) for u in uses):
                        continue
                    cand = (b, i, s, t)
                    break
                if cand:
                    break
            if cand:
                break
        if not cand:
            break
        b, i, s, t = cand

        class _Sub(ast.NodeTransformer):
            def visit_Name(self, n):
                if n.id == t and isinstance(n.ctx, ast.Load):
                    return ast.copy_location(copy.deepcopy(s.value), n)
                return n
        del b[i]
        if not b:
            b.append(ast.copy_location(ast.Pass(), s))
        _Sub().visit(cfunc)
        done.append(t)
    return done


class _Rename(ast.NodeTransformer):
    def __init__(self, m, own_params):
        self.m, self.own = m, own_params

    def visit_Name(self, n):
        if n.id in self.m:
            n.id = self.m[n.id]
        return n

    def visit_arg(self, n):
        if n.arg in self.m and n.arg not in self.own:
            n.arg = self.m[n.arg]
        return n


# ------------------------------------------------------------------ N17: p.shape[2] == p.shape[-1] for a parameter documented with rank 3
_RANK_KEEPING = ("to", "type", "float", "double", "long", "int", "cpu", "cuda", "detach", "contiguous", "clone", "requires_grad_")


def _doc_ranks(func):
    """parameter -> rank, read from the numpy-doc `shape=(..)` annotation of tensor parameters"""
    return {k: v for k, v in _doc_tensors(func).items() if v is not None}


def _doc_tensors(func):
    """parameter -> rank | None for the parameters the numpy-doc types as torch.Tensor / numpy.ndarray"""
    import re
    from .front import _balanced_shape, split_top
    out, insec = {}, False
    for l in (ast.get_docstring(func) or "").split("\n"):
        if l.strip() == "Parameters":
            insec = True
            continue
        if l.strip() in ("Returns", "Yields", "Raises"):
            insec = False
        if not insec or l.startswith((" ", "\t")):
            continue
        m = re.match(r"^(\w+)\s*:\s*(.*)$", l)
        if m and ("tensor" in m.group(2).lower() or "ndarray" in m.group(2).lower()):
            sh = _balanced_shape(m.group(2))
            alt = re.search(r"\b(list|tuple|str|None|int|float)\b", m.group(2).split("shape")[0])
            if sh is not None:
                out[m.group(1)] = len(split_top(sh))
            elif not alt:
                out[m.group(1)] = None
    return out


def _shape_reads(func, p):
    out = []
    for n in ast.walk(func):
        if isinstance(n, ast.Subscript) and isinstance(n.value, ast.Attribute) and n.value.attr == "shape" and \
                isinstance(n.value.value, ast.Name) and n.value.value.id == p:
            k = n.slice
            v = None
            if isinstance(k, ast.Constant) and isinstance(k.value, int) and not isinstance(k.value, bool):
                v = k.value
            elif isinstance(k, ast.UnaryOp) and isinstance(k.op, ast.USub) and isinstance(k.operand, ast.Constant) and \
                    isinstance(k.operand.value, int) and not isinstance(k.operand.value, bool):
                v = -k.operand.value
            if v is not None:
                out.append((n, v))
    return out


def rank_stable(func, p):
    """every assignment to p in func is a rank-keeping conversion of itself"""
    for n in ast.walk(func):
        tg = []
        if isinstance(n, ast.Assign):
            tg = [(t, n.value) for t in n.targets]
        elif isinstance(n, (ast.AugAssign, ast.AnnAssign)):
            tg = [(n.target, n.value)]
        elif isinstance(n, (ast.For, ast.comprehension)):
            tg = [(n.target, None)]
        elif isinstance(n, ast.withitem) and n.optional_vars is not None:
            tg = [(n.optional_vars, None)]
        elif isinstance(n, ast.NamedExpr):
            tg = [(n.target, None)]
        for t, v in tg:
            if not any(isinstance(x, ast.Name) and x.id == p and isinstance(x.ctx, ast.Store) for x in ast.walk(t)):
                continue
            keep = isinstance(t, ast.Name) and isinstance(n, ast.Assign) and isinstance(v, ast.Call) and (
                (isinstance(v.func, ast.Attribute) and v.func.attr in _RANK_KEEPING and isinstance(v.func.value, ast.Name) and v.func.value.id == p) or
                (ast.unparse(v.func) in ("torch.clone", "_cast_as_tensor") and v.args and isinstance(v.args[0], ast.Name) and v.args[0].id == p))
            if not keep:
                return False
    return True


def shape_index_spelling(cfunc, rfunc):
    """`p.shape[k]` of a parameter whose documented rank is r is re-spelled `p.shape[k - r]` (or back) when that is the spelling the
    reference uses for the same extent.  p must keep its rank: it is a parameter of both versions and every assignment to it in the
    variant is a rank-keeping conversion of itself (`p = p.to(..)`, `p = torch.clone(p)` ...)."""
    ranks = _doc_ranks(rfunc)
    acts = []
    if any("jit" in ast.unparse(d) for d in cfunc.decorator_list):
        # inside a numba kernel `a, b = p.shape` only compiles for a 2-d p: the unpack itself fixes the rank
        for n in ast.walk(cfunc):
            if isinstance(n, ast.Assign) and len(n.targets) == 1 and isinstance(n.targets[0], ast.Tuple) and isinstance(n.value, ast.Attribute) and \
                    n.value.attr == "shape" and isinstance(n.value.value, ast.Name) and n.value.value.id in params_of(cfunc) and \
                    not any(isinstance(e, ast.Starred) for e in n.targets[0].elts):
                ranks.setdefault(n.value.value.id, len(n.targets[0].elts))
    # N21: `a, b, c = p.shape` for a parameter of documented rank 3 is three reads p.shape[0], p.shape[1], p.shape[2] (unless the
    # reference unpacks the same shape itself)
    ref_unpacks = {ast.unparse(n.value) for n in ast.walk(rfunc) if isinstance(n, ast.Assign) and isinstance(n.targets[0], ast.Tuple)}
    def split_unpacks(stmts):
        i = 0
        while i < len(stmts):
            st = stmts[i]
            for fld in ("body", "orelse", "finalbody"):
                if isinstance(getattr(st, fld, None), list) and not isinstance(st, SCOPES):
                    split_unpacks(getattr(st, fld))
            for h in getattr(st, "handlers", []) or []:
                split_unpacks(h.body)
            if isinstance(st, ast.Assign) and len(st.targets) == 1 and isinstance(st.targets[0], ast.Tuple) and \
                    all(isinstance(e, ast.Name) for e in st.targets[0].elts) and isinstance(st.value, ast.Attribute) and \
                    st.value.attr == "shape" and isinstance(st.value.value, ast.Name) and ast.unparse(st.value) not in ref_unpacks:
                p_ = st.value.value.id
                names = [e.id for e in st.targets[0].elts]
                if ranks.get(p_) == len(names) and p_ in params_of(cfunc) and rank_stable(cfunc, p_) and p_ not in names and \
                        len(set(names)) == len(names):
                    new = [ast.copy_location(ast.Assign(targets=[ast.Name(id=nm, ctx=ast.Store())],
                                                        value=ast.Subscript(value=ast.Attribute(value=ast.Name(id=p_, ctx=ast.Load()), attr="shape", ctx=ast.Load()),
                                                                            slice=ast.Constant(value=k), ctx=ast.Load())), st)
                           for k, nm in enumerate(names) if nm in used]      # an extent nobody reads is a dead pure read
                    new = new or [ast.copy_location(ast.Pass(), st)]
                    stmts[i:i + 1] = new
                    acts.append("shape-unpack %s" % ast.unparse(st)[:50])
                    i += len(new)
                    continue
            i += 1
    used = {x.id for x in ast.walk(cfunc) if isinstance(x, ast.Name) and isinstance(x.ctx, ast.Load)}
    split_unpacks(cfunc.body)
    if acts:
        ast.fix_missing_locations(cfunc)
    for p, r in ranks.items():
        if p not in params_of(cfunc) or r < 1 or not rank_stable(cfunc, p):
            continue
        ref_k = {v for _, v in _shape_reads(rfunc, p)}
        for n, v in _shape_reads(cfunc, p):
            if v in ref_k or not (-r <= v < r):
                continue
            alt = v - r if v >= 0 else v + r
            if alt in ref_k:
                n.slice = ast.copy_location(ast.Constant(value=alt) if alt >= 0 else ast.UnaryOp(op=ast.USub(), operand=ast.Constant(value=-alt)), n.slice)
                acts.append("shape-index %s.shape[%d]->[%d] (documented rank %d)" % (p, v, alt, r))
    # N18: len(p) == p.shape[0] for a tensor / array parameter (any rank >= 1), spelled the way the reference spells it
    arrays = dict(_doc_tensors(rfunc))
    for p in params_of(rfunc) & params_of(cfunc):
        # array-evident without a docstring: the reference reads p.shape / p.dtype, or indexes p with a tuple (p[i, j])
        if p not in arrays and any((isinstance(n, ast.Attribute) and n.attr in ("shape", "dtype", "ndim") and isinstance(n.value, ast.Name) and n.value.id == p) or
                                   (isinstance(n, ast.Subscript) and isinstance(n.value, ast.Name) and n.value.id == p and isinstance(n.slice, ast.Tuple))
                                   for n in ast.walk(rfunc)):
            arrays[p] = ranks.get(p)
    for p, r in arrays.items():
        if p not in params_of(cfunc) or (r is not None and r < 1) or not rank_stable(cfunc, p):
            continue
        def lens(f):
            return [n for n in ast.walk(f) if isinstance(n, ast.Call) and isinstance(n.func, ast.Name) and n.func.id == "len" and
                    len(n.args) == 1 and not n.keywords and isinstance(n.args[0], ast.Name) and n.args[0].id == p]
        lead = lambda f: [n for n, v in _shape_reads(f, p) if v == 0 or (r is not None and v == -r)]
        r_len, r_sh, c_len, c_sh = lens(rfunc), lead(rfunc), lens(cfunc), lead(cfunc)
        if c_len and r_sh and not r_len:
            class _L(ast.NodeTransformer):
                def visit_Call(self, n):
                    self.generic_visit(n)
                    if n in c_len:
                        return ast.copy_location(ast.Subscript(value=ast.Attribute(value=n.args[0], attr="shape", ctx=ast.Load()),
                                                               slice=ast.Constant(value=0), ctx=ast.Load()), n)
                    return n
            _L().visit(cfunc)
            acts.append("len(%s)->%s.shape[0]" % (p, p))
        elif c_sh and r_len and not r_sh:
            class _S(ast.NodeTransformer):
                def visit_Subscript(self, n):
                    self.generic_visit(n)
                    if n in c_sh:
                        return ast.copy_location(ast.Call(func=ast.Name(id="len", ctx=ast.Load()), args=[n.value.value], keywords=[]), n)
                    return n
            _S().visit(cfunc)
            acts.append("%s.shape[0]->len(%s)" % (p, p))
    if acts:
        ast.fix_missing_locations(cfunc)
    return acts


# ------------------------------------------------------------------ N19: positional / keyword form of the arguments of package calls
PACKAGE_SIGNATURES = {}      # (module short name, function name) -> [positional-or-keyword parameter names]   (current tree; set by front.Repo)
_REF_SIGS = {}
_RESOLVE = {}                # local name -> (module short name, function name) for the module being canonicalised


def signature_of(fdef):
    return [a.arg for a in fdef.args.args] if not fdef.args.posonlyargs else None


def _ref_signature(mod, fname):
    if (mod, fname) not in _REF_SIGS:
        f = reference_functions(mod).get(fname)
        _REF_SIGS[(mod, fname)] = signature_of(f) if f is not None else None
    return _REF_SIGS[(mod, fname)]


def _arg_pure(e):
    for n in ast.walk(e):
        if isinstance(n, ast.Call):
            if ast.unparse(n.func) not in ("len", "int", "float", "min", "max", "abs", "range", "tuple", "list"):
                return False
        elif isinstance(n, (ast.NamedExpr, ast.Yield, ast.YieldFrom, ast.Await)):
            return False
    return True


def call_argument_form(cfunc, rfunc):
    """A call of a package function binds its arguments to the callee's parameters by position or by name; the two forms denote the same
    call.  Each such call is re-spelled with as many leading positional arguments as the reference's calls of the same callee (in the
    same function) use, the rest by keyword in the reference's keyword order.  Conditions: the callee resolves to ONE package definition,
    no *args / **kwargs at the call, the callee's leading parameter names agree with the reference callee's where positional form is
    produced, and - if the order in which the argument expressions are evaluated changes - every argument expression is pure."""
    if not _RESOLVE:
        return []
    shadow = locals_of(cfunc) | params_of(cfunc)
    ref_calls = {}
    for n in ast.walk(rfunc):
        if isinstance(n, ast.Call) and isinstance(n.func, ast.Name):
            ref_calls.setdefault(n.func.id, []).append(n)
    acts = []
    for n in ast.walk(cfunc):
        if not (isinstance(n, ast.Call) and isinstance(n.func, ast.Name) and n.func.id in _RESOLVE and n.func.id not in shadow):
            continue
        if any(isinstance(a, ast.Starred) for a in n.args):
            continue
        key = _RESOLVE[n.func.id]
        ps = PACKAGE_SIGNATURES.get(key)
        rcs = ref_calls.get(n.func.id)
        if ps is None or not rcs or len(n.args) > len(ps):
            continue
        if any(any(isinstance(a, ast.Starred) for a in rc.args) for rc in rcs):
            continue
        bound = {}
        order = []
        for i, a in enumerate(n.args):
            bound[ps[i]] = a
            order.append(a)
        extra = []
        dup = False
        for k in n.keywords:
            if k.arg in bound:
                dup = True
            if k.arg is not None and k.arg in ps:
                bound[k.arg] = k.value
            else:
                extra.append(k)      # keyword-only / **mapping: kept behind the named parameters, in their own order
            order.append(k.value)
        if dup:
            continue
        rps = _ref_signature(*key) or []
        # the reference call to mimic: one that binds the same parameters, else (if all agree on the positional count) the closest
        def rbound(rc):
            return frozenset([rps[i] for i in range(min(len(rc.args), len(rps)))] + [k.arg for k in rc.keywords if k.arg is not None])
        mine = frozenset(bound) | frozenset(k.arg for k in extra if k.arg is not None)
        same = [rc for rc in rcs if rbound(rc) == mine]
        if same:
            model = same[0]
        elif len({len(rc.args) for rc in rcs}) == 1:
            model = max(rcs, key=lambda rc: len(rbound(rc) & mine))
        else:
            continue
        npos_ref = len(model.args)
        npos = 0
        while npos < npos_ref and npos < len(ps) and ps[npos] in bound and npos < len(rps) and rps[npos] == ps[npos]:
            npos += 1
        new_args = [bound[ps[i]] for i in range(npos)]
        rest = [q for q in ps[npos:] if q in bound]
        ref_kw = [k.arg for k in model.keywords]
        old_kw = [k.arg for k in n.keywords]
        def rank(q):
            return (0, ref_kw.index(q)) if q in ref_kw else (1, old_kw.index(q) if q in old_kw else len(old_kw) + ps.index(q))
        rest.sort(key=rank)
        new_kws = [ast.keyword(arg=q, value=bound[q]) for q in rest] + extra
        new_order = new_args + [k.value for k in new_kws]
        if [id(x) for x in new_order] == [id(x) for x in order] and len(new_args) == len(n.args):
            continue
        if [id(x) for x in new_order] != [id(x) for x in order] and not all(_arg_pure(x) for x in order):
            continue
        before = ast.unparse(n)[:60]
        n.args = new_args
        n.keywords = new_kws
        acts.append("call-form %s" % before)
    if acts:
        ast.fix_missing_locations(cfunc)
    return acts


# ------------------------------------------------------------------ N22: for i in range(len(E)) .. E[i]   <->   for i, x in enumerate(E)
def _untouched(body, name, names=None):
    """`name` (or every name in `names`) is neither rebound nor (syntactically) mutated in the statements: no store to it or into it, no
    method call on it, not passed whole to a call, no nested scope mentions it"""
    if names is not None:
        return all(_untouched(body, nm) for nm in names)
    for st in body:
        for x in ast.walk(st):
            if isinstance(x, ast.Name) and x.id == name and isinstance(x.ctx, (ast.Store, ast.Del)):
                return False
            if isinstance(x, (ast.Subscript, ast.Attribute)) and isinstance(x.ctx, (ast.Store, ast.Del)):
                b = x
                while isinstance(b, (ast.Subscript, ast.Attribute)):
                    b = b.value
                if isinstance(b, ast.Name) and b.id == name:
                    return False
            if isinstance(x, ast.Call):
                if isinstance(x.func, ast.Attribute) and isinstance(x.func.value, ast.Name) and x.func.value.id == name:
                    return False
                if any(isinstance(a, ast.Name) and a.id == name for a in list(x.args) + [k.value for k in x.keywords]) and \
                        ast.unparse(x.func) not in ("len", "range", "enumerate"):
                    return False
            if isinstance(x, (ast.Lambda, ast.FunctionDef)) and any(isinstance(y, ast.Name) and y.id == name for y in ast.walk(x)):
                return False
    return True



def loop_form(lp):
    """-> ('enum', E, i, item target) | ('range', E, i, None) | None for the two spellings of an indexed walk over a named container"""
    if not isinstance(lp, ast.For) or lp.orelse:
        return None
    it = lp.iter
    if isinstance(it, ast.Call) and isinstance(it.func, ast.Name) and it.func.id == "enumerate" and len(it.args) == 1 and not it.keywords \
            and isinstance(it.args[0], ast.Name) and isinstance(lp.target, ast.Tuple) and len(lp.target.elts) == 2 and \
            isinstance(lp.target.elts[0], ast.Name):
        return "enum", it.args[0].id, lp.target.elts[0].id, lp.target.elts[1]
    if isinstance(it, ast.Call) and isinstance(it.func, ast.Name) and it.func.id in ("range", "prange") and len(it.args) == 1 and not it.keywords and \
            isinstance(lp.target, ast.Name):
        a = it.args[0]
        e = None
        if isinstance(a, ast.Call) and isinstance(a.func, ast.Name) and a.func.id == "len" and len(a.args) == 1 and isinstance(a.args[0], ast.Name):
            e = a.args[0].id
        elif isinstance(a, ast.Subscript) and isinstance(a.value, ast.Attribute) and a.value.attr == "shape" and \
                isinstance(a.value.value, ast.Name) and isinstance(a.slice, ast.Constant) and a.slice.value == 0:
            e = a.value.value.id
        if e is not None and it.func.id == "range":
            return "range", e, lp.target.id, None
    return None


def _item_reads(body, e, i):
    return [x for st in body for x in ast.walk(st) if isinstance(x, ast.Subscript) and isinstance(x.ctx, ast.Load) and
            isinstance(x.value, ast.Name) and x.value.id == e and isinstance(x.slice, ast.Name) and x.slice.id == i]


def loop_spelling(cfunc, rfunc):
    """An indexed walk over a named container E that the loop body neither rebinds nor mutates can be written `for i in range(len(E))`
    with E[i] reads, or `for i, x in enumerate(E)`.  When the reference walks E in exactly one of the two forms (one loop) and the
    variant has one loop over E in the other form, the variant's loop is re-spelled in the reference's form."""
    def loops(f):
        out = {}
        for lp in ast.walk(f):
            lf = loop_form(lp)
            if lf:
                out.setdefault(lf[1], []).append((lp, lf))
        return out
    cl, rl = loops(cfunc), loops(rfunc)
    names = {x.id for x in ast.walk(cfunc) if isinstance(x, ast.Name)}
    acts = []
    # tqdm.trange(*a, **kw) is defined as tqdm(range(*a), **kw): spelled the way the reference spells it
    ref_trange = any(isinstance(n, ast.Call) and isinstance(n.func, ast.Name) and n.func.id == "trange" for n in ast.walk(rfunc))
    ref_tqdm_range = any(isinstance(n, ast.Call) and isinstance(n.func, ast.Name) and n.func.id == "tqdm" and n.args and isinstance(n.args[0], ast.Call)
                         and isinstance(n.args[0].func, ast.Name) and n.args[0].func.id == "range" for n in ast.walk(rfunc))
    if ref_trange and not ref_tqdm_range:
        for n in ast.walk(cfunc):
            if isinstance(n, ast.Call) and isinstance(n.func, ast.Name) and n.func.id == "tqdm" and len(n.args) == 1 and isinstance(n.args[0], ast.Call) and \
                    isinstance(n.args[0].func, ast.Name) and n.args[0].func.id == "range" and not n.args[0].keywords:
                n.func = ast.copy_location(ast.Name(id="trange", ctx=ast.Load()), n.func)
                n.args = list(n.args[0].args)
                acts.append("loop-form tqdm(range(..))->trange(..)")
    # an enumerate() whose index nobody reads:  for j, x in enumerate(E)  ==  for x in E   (spelled the way the reference spells it)
    def unused_enum(f):
        loads = {x.id for x in ast.walk(f) if isinstance(x, ast.Name) and isinstance(x.ctx, (ast.Load, ast.Del))}
        out = {}
        for lp in ast.walk(f):
            if isinstance(lp, ast.For) and isinstance(lp.iter, ast.Call) and isinstance(lp.iter.func, ast.Name) and lp.iter.func.id == "enumerate" and \
                    len(lp.iter.args) == 1 and not lp.iter.keywords and isinstance(lp.target, ast.Tuple) and len(lp.target.elts) == 2 and \
                    isinstance(lp.target.elts[0], ast.Name) and lp.target.elts[0].id not in loads:
                out.setdefault(ast.unparse(lp.iter.args[0]), []).append(lp)
        return out
    def plain(f):
        out = {}
        for lp in ast.walk(f):
            if isinstance(lp, ast.For) and not (isinstance(lp.iter, ast.Call) and isinstance(lp.iter.func, ast.Name) and lp.iter.func.id == "enumerate"):
                out.setdefault(ast.unparse(lp.iter), []).append(lp)
        return out
    r_enum, c_enum, r_plain, c_plain = unused_enum(rfunc), unused_enum(cfunc), plain(rfunc), plain(cfunc)
    for e, lps in c_plain.items():
        if len(lps) == 1 and len(r_enum.get(e, ())) == 1 and e not in r_plain:
            lp, rlp = lps[0], r_enum[e][0]
            j = rlp.target.elts[0].id
            if j in names:
                continue
            lp.iter = ast.copy_location(ast.Call(func=ast.Name(id="enumerate", ctx=ast.Load()), args=[lp.iter], keywords=[]), lp.iter)
            lp.target = ast.copy_location(ast.Tuple(elts=[ast.Name(id=j, ctx=ast.Store()), lp.target], ctx=ast.Store()), lp.target)
            names.add(j)
            acts.append("loop-form unused enumerate index restored over %s" % e[:30])
    for e, lps in c_enum.items():
        if len(lps) == 1 and len(r_plain.get(e, ())) == 1 and e not in r_enum:
            lp = lps[0]
            lp.target = lp.target.elts[1]
            lp.iter = lp.iter.args[0]
            acts.append("loop-form unused enumerate index dropped over %s" % e[:30])
    for e, cs in cl.items():
        rs = rl.get(e, [])
        if len(cs) != 1 or len(rs) != 1:
            continue
        (lp, (cform, _, ci, citem)), (rlp, (rform, _, ri, ritem)) = cs[0], rs[0]
        if cform == rform or not _untouched(lp.body, e) or not _untouched(lp.body, ci) or e == ci:
            continue
        if cform == "enum":
            # -> range form: item target bound from E[i] at the top of the body (view / name alias inlining removes it again)
            lp.iter = copy.deepcopy(rlp.iter)
            lp.target = ast.Name(id=ci, ctx=ast.Store())
            lp.body.insert(0, ast.copy_location(ast.Assign(targets=[citem], value=ast.Subscript(value=ast.Name(id=e, ctx=ast.Load()),
                                                slice=ast.Name(id=ci, ctx=ast.Load()), ctx=ast.Load())), lp.body[0]))
            acts.append("loop-form enumerate(%s)->range" % e)
        else:
            reads = _item_reads(lp.body, e, ci)
            first = lp.body[0]
            if len(lp.body) > 1 and isinstance(first, ast.Assign) and len(first.targets) == 1 and any(first.value is x for x in reads) and \
                    isinstance(first.targets[0], (ast.Name, ast.Tuple)) and len(reads) == 1 and \
                    all(isinstance(y, (ast.Name, ast.Tuple)) for y in ast.walk(first.targets[0]) if isinstance(y, ast.expr) and not isinstance(y, ast.expr_context)):
                # `for i in range(len(E)): x = E[i]; ...`  ->  `for i, x in enumerate(E): ...`
                lp.body.pop(0)
                lp.iter = ast.copy_location(ast.Call(func=ast.Name(id="enumerate", ctx=ast.Load()), args=[ast.Name(id=e, ctx=ast.Load())], keywords=[]), lp.iter)
                lp.target = ast.Tuple(elts=[ast.Name(id=ci, ctx=ast.Store()), first.targets[0]], ctx=ast.Store())
                acts.append("loop-form range(%s)->enumerate" % e)
                continue
            if not reads or not isinstance(ritem, ast.Name):
                continue
            nm = ritem.id if ritem.id not in names else ritem.id + "__it"
            if nm in names:
                continue
            class _R(ast.NodeTransformer):
                def visit_Subscript(self, n):
                    if any(n is x for x in reads):
                        return ast.copy_location(ast.Name(id=nm, ctx=ast.Load()), n)
                    self.generic_visit(n)
                    return n
            for k, st in enumerate(lp.body):
                lp.body[k] = _R().visit(st)
            lp.iter = ast.copy_location(ast.Call(func=ast.Name(id="enumerate", ctx=ast.Load()), args=[ast.Name(id=e, ctx=ast.Load())], keywords=[]), lp.iter)
            lp.target = ast.Tuple(elts=[ast.Name(id=ci, ctx=ast.Store()), ast.Name(id=nm, ctx=ast.Store())], ctx=ast.Store())
            acts.append("loop-form range(%s)->enumerate" % e)
    if acts:
        ast.fix_missing_locations(cfunc)
    return acts


# ------------------------------------------------------------------ N25: x.ndim == len(x.shape) ; torch.f(x, ..) == x.f(..)
TORCH_DUAL = ("abs", "sum", "mean", "max", "min", "argmax", "argmin", "cumsum", "exp", "log", "sqrt", "square", "sign", "prod", "any", "all",
              "std", "var", "flatten", "squeeze", "unsqueeze", "permute", "reshape", "sub", "add", "mul", "div", "chunk", "amax", "amin",
              "logsumexp", "softmax", "log_softmax", "isnan", "nan_to_num", "round", "floor", "ceil", "clamp", "argsort", "sort", "unique")


def tensor_spelling_synonyms(cfunc, rfunc):
    """Two families of synonyms, each re-spelled the way the reference function spells it (and only when the reference uses ONE spelling):
      * the number of dimensions:  x.ndim  ==  len(x.shape)            (torch and numpy)
      * function / method form of a torch operation:  torch.f(x, a..)  ==  x.f(a..)   for the operations in TORCH_DUAL
    The method form of an expression whose value is not a tensor does not exist (AttributeError), so the two forms can only differ in
    whether the code runs at all, never in what it computes."""
    acts = []
    def ndims(f):
        a = [n for n in ast.walk(f) if isinstance(n, ast.Attribute) and n.attr == "ndim" and isinstance(n.ctx, ast.Load)]
        b = [n for n in ast.walk(f) if isinstance(n, ast.Call) and isinstance(n.func, ast.Name) and n.func.id == "len" and len(n.args) == 1 and
             not n.keywords and isinstance(n.args[0], ast.Attribute) and n.args[0].attr == "shape"]
        return a, b
    ra, rb = ndims(rfunc)
    ca, cb = ndims(cfunc)
    if ca and rb and not ra:
        class _A(ast.NodeTransformer):
            def visit_Attribute(self, n):
                self.generic_visit(n)
                if n.attr == "ndim" and isinstance(n.ctx, ast.Load):
                    return ast.copy_location(ast.Call(func=ast.Name(id="len", ctx=ast.Load()), args=[ast.Attribute(value=n.value, attr="shape", ctx=ast.Load())], keywords=[]), n)
                return n
        _A().visit(cfunc)
        acts.append("ndim->len(shape)")
    elif cb and ra and not rb:
        class _B(ast.NodeTransformer):
            def visit_Call(self, n):
                self.generic_visit(n)
                if isinstance(n.func, ast.Name) and n.func.id == "len" and len(n.args) == 1 and not n.keywords and \
                        isinstance(n.args[0], ast.Attribute) and n.args[0].attr == "shape":
                    return ast.copy_location(ast.Attribute(value=n.args[0].value, attr="ndim", ctx=ast.Load()), n)
                return n
        _B().visit(cfunc)
        acts.append("len(shape)->ndim")

    def forms(f):
        out = {}
        for n in ast.walk(f):
            if isinstance(n, ast.Call) and isinstance(n.func, ast.Attribute) and n.func.attr in TORCH_DUAL:
                v = n.func.value
                if isinstance(v, ast.Name) and v.id == "torch":
                    if n.args and not isinstance(n.args[0], ast.Starred):
                        out.setdefault(n.func.attr, {}).setdefault("torch", []).append(n)
                elif not (isinstance(v, ast.Name) and v.id in ("numpy", "np", "math", "F", "itertools", "random")) and \
                        not (isinstance(v, ast.Attribute) and ast.unparse(v) in ("torch.nn.functional", "numpy.random")):
                    out.setdefault(n.func.attr, {}).setdefault("method", []).append(n)
        return out
    rf, cf = forms(rfunc), forms(cfunc)
    for f_, kinds in cf.items():
        want = rf.get(f_)
        if not want or len(want) != 1:
            continue
        want = next(iter(want))
        for n in kinds.get("method" if want == "torch" else "torch", []):
            if want == "torch":
                n.args = [n.func.value] + list(n.args)
                n.func = ast.copy_location(ast.Attribute(value=ast.Name(id="torch", ctx=ast.Load()), attr=f_, ctx=ast.Load()), n.func)
            else:
                if any(k.arg in ("input", "out") for k in n.keywords):
                    continue
                recv = n.args[0]
                n.args = list(n.args[1:])
                n.func = ast.copy_location(ast.Attribute(value=recv, attr=f_, ctx=ast.Load()), n.func)
            acts.append("%s-form %s" % (want, f_))
    if acts:
        ast.fix_missing_locations(cfunc)
    return acts


# ------------------------------------------------------------------ N23: `if c: x = E`  <->  `x = E if c else x`
def conditional_assignment_form(cfunc, rfunc):
    """`if c: x = E` (no else, x a plain name) assigns exactly what `x = E if c else x` assigns.  When the reference writes the update of
    x as such a conditional expression and the variant as an if-statement, the variant is re-spelled as the conditional expression with
    the reference's arm order (`x = x if not-c else E` when the reference keeps x in the first arm)."""
    ref_forms = {}
    for n in ast.walk(rfunc):
        if isinstance(n, ast.Assign) and len(n.targets) == 1 and isinstance(n.targets[0], ast.Name) and isinstance(n.value, ast.IfExp):
            x = n.targets[0].id
            if isinstance(n.value.body, ast.Name) and n.value.body.id == x:
                ref_forms.setdefault(x, set()).add("keep-first")
            elif isinstance(n.value.orelse, ast.Name) and n.value.orelse.id == x:
                ref_forms.setdefault(x, set()).add("keep-last")
    if not ref_forms:
        return []
    ref_ifs = {n.body[0].targets[0].id for n in ast.walk(rfunc) if isinstance(n, ast.If) and not n.orelse and len(n.body) == 1 and
               isinstance(n.body[0], ast.Assign) and len(n.body[0].targets) == 1 and isinstance(n.body[0].targets[0], ast.Name)}
    acts = []

    def neg(t):
        if isinstance(t, ast.Compare) and len(t.ops) == 1 and type(t.ops[0]) in NEG_CMP:
            return ast.copy_location(ast.Compare(left=t.left, ops=[NEG_CMP[type(t.ops[0])]()], comparators=t.comparators), t)
        if isinstance(t, ast.UnaryOp) and isinstance(t.op, ast.Not):
            return t.operand
        return ast.copy_location(ast.UnaryOp(op=ast.Not(), operand=t), t)

    def walk(stmts):
        for i, st in enumerate(stmts):
            for fld in ("body", "orelse", "finalbody"):
                if isinstance(getattr(st, fld, None), list) and not isinstance(st, SCOPES):
                    walk(getattr(st, fld))
            for h in getattr(st, "handlers", []) or []:
                walk(h.body)
            if isinstance(st, ast.If) and not st.orelse and len(st.body) == 1 and isinstance(st.body[0], ast.Assign) and \
                    len(st.body[0].targets) == 1 and isinstance(st.body[0].targets[0], ast.Name):
                x = st.body[0].targets[0].id
                if len(ref_forms.get(x, ())) == 1 and x not in ref_ifs:
                    form = next(iter(ref_forms[x]))
                    keep = ast.Name(id=x, ctx=ast.Load())
                    val = st.body[0].value
                    ife = ast.IfExp(test=neg(st.test), body=keep, orelse=val) if form == "keep-first" else ast.IfExp(test=st.test, body=val, orelse=keep)
                    stmts[i] = ast.copy_location(ast.Assign(targets=[ast.Name(id=x, ctx=ast.Store())], value=ast.copy_location(ife, st)), st)
                    acts.append("if-to-conditional-expression %s" % x)
    walk(cfunc.body)
    if acts:
        ast.fix_missing_locations(cfunc)
    return acts


NEG_CMP = {ast.Lt: ast.GtE, ast.LtE: ast.Gt, ast.Gt: ast.LtE, ast.GtE: ast.Lt, ast.Eq: ast.NotEq, ast.NotEq: ast.Eq,
           ast.Is: ast.IsNot, ast.IsNot: ast.Is, ast.In: ast.NotIn, ast.NotIn: ast.In}


# ------------------------------------------------------------------ N20: dim= / axis= / positional dimension of reductions
DIM_FUNCS = ("sum", "mean", "max", "min", "argmax", "argmin", "cumsum", "any", "all", "prod", "cat", "stack", "softmax", "log_softmax",
             "logsumexp", "std", "var", "amax", "amin", "concatenate")


def _dim_form(n):
    """-> (key, form, value expr) for a reduction call; form in {'dim', 'axis', 'pos'}; None when the call names no dimension"""
    if not (isinstance(n, ast.Call) and isinstance(n.func, ast.Attribute) and n.func.attr in DIM_FUNCS):
        return None
    if any(isinstance(a, ast.Starred) for a in n.args) or any(k.arg is None for k in n.keywords):
        return None
    fn = isinstance(n.func.value, ast.Name) and n.func.value.id in ("torch", "numpy")
    key = (n.func.attr, n.func.value.id if fn else "<method>")
    kw = [k for k in n.keywords if k.arg in ("dim", "axis")]
    slot = 1 if fn else 0
    if len(kw) == 1 and len(n.args) == slot:
        return key, kw[0].arg, kw[0].value
    if not kw and len(n.args) == slot + 1:
        v = n.args[slot]
        lit = v.operand if isinstance(v, ast.UnaryOp) and isinstance(v.op, ast.USub) else v
        if (isinstance(lit, ast.Constant) and isinstance(lit.value, int) and not isinstance(lit.value, bool)) or \
                n.func.attr not in ("max", "min"):       # torch.max(a, b) / a.max(b) with a tensor b is the element-wise maximum
            return key, "pos", v
    return None


def dimension_argument_form(cfunc, rfunc):
    """x.sum(dim=1) == x.sum(axis=1) == x.sum(1) (torch accepts both keywords; the dimension is the first parameter after the input).
    A reduction call is re-spelled in the form ALL reference calls of the same reduction (same name, same receiver kind) in the same
    function use.  For max / min a positional dimension is only recognised when it is an integer literal (torch.max(a, b) is an element-wise max)."""
    ref_forms = {}
    for n in ast.walk(rfunc):
        d = _dim_form(n)
        if d:
            ref_forms.setdefault(d[0], set()).add(d[1])
    acts = []
    for n in ast.walk(cfunc):
        d = _dim_form(n)
        if not d or len(ref_forms.get(d[0], ())) != 1:
            continue
        want = next(iter(ref_forms[d[0]]))
        key, form, val = d
        if form == want or not all(_arg_pure(k.value) for k in n.keywords) or not _arg_pure(val):
            continue
        if want in ("dim", "axis") and key[1] == "numpy" and want == "dim":
            continue
        before = ast.unparse(n)[:50]
        if form == "pos":
            n.args.pop()
            n.keywords.insert(0, ast.keyword(arg=want, value=val))
        elif want == "pos":
            n.keywords = [k for k in n.keywords if k.arg not in ("dim", "axis")]
            n.args.append(val)
        else:
            for k in n.keywords:
                if k.arg in ("dim", "axis"):
                    k.arg = want
        acts.append("dim-form %s" % before)
    if acts:
        ast.fix_missing_locations(cfunc)
    return acts


def canonicalise_function(cfunc, rfunc):
    """rewrite cfunc in place; -> list of actions taken (for the evidence)"""
    normalise(cfunc)
    rfunc = copy.deepcopy(rfunc)
    normalise(rfunc)
    pre_acts = shape_index_spelling(cfunc, rfunc)
    pre_acts += call_argument_form(cfunc, rfunc)
    pre_acts += tensor_spelling_synonyms(cfunc, rfunc)
    pre_acts += dimension_argument_form(cfunc, rfunc)
    pre_acts += loop_spelling(cfunc, rfunc)
    pre_acts += conditional_assignment_form(cfunc, rfunc)
    fk = None if any(isinstance(n, ast.Return) and n.value is not None for n in ast.walk(cfunc)) else "func"
    al = Aligner(cfunc, rfunc)
    al.stmts(cfunc.body, rfunc.body, fk, cfunc.body if fk else None)
    m = al.mapping()
    # locals without a counterpart in the reference that merely name a pure sub-expression are expanded again (N5)
    keep = set(m.values()) | {a for a in m}
    inl = ["alias " + t for t in inline_name_aliases(cfunc, rfunc, mapped=set(m))]
    inl += ["view " + t for t in inline_view_aliases(cfunc, rfunc, mapped=set(m))]
    inl += [t for t in inline_extra_temps(cfunc, rfunc, mapped=set(m))]
    if inl:
        ast.fix_missing_locations(cfunc)
        al2 = Aligner(cfunc, rfunc)
        al2.stmts(cfunc.body, rfunc.body)
        al2.actions = al.actions + ["inline %s" % t for t in inl] + al2.actions
        al = al2
        m = al.mapping()
    m = {a: b for a, b in m.items() if a != b}
    def second_pass():
        # with the names settled, compare concretely (no abstraction of locals): operand order / comparison direction / arm order of
        # expressions whose operands are all locals can only be told apart now
        a2 = Aligner(cfunc, rfunc)
        a2.cl, a2.rl = set(), set()
        a2.stmts(cfunc.body, rfunc.body)
        al.actions.extend(a2.actions)
    if not m:
        second_pass()
    if m:
        cl = locals_of(cfunc)
        pr = params_of(cfunc)
        # every name occurring in the function that is NOT being renamed must not collide with a target name
        targets = set(m.values())
        stay = {n.id for n in ast.walk(cfunc) if isinstance(n, ast.Name)} - set(m)
        full = dict(m)
        for t in sorted(targets & stay):
            if t in cl:
                full[t] = t + "__c"          # an unrelated local of that name moves out of the way
            else:
                # target spelling is a parameter / global used in the function: renaming onto it would capture -> drop that renaming
                for a in [a for a, b in m.items() if b == t]:
                    del full[a]
        # renaming must stay injective
        if len(set(full.values())) == len(full):
            _Rename(full, pr).visit(cfunc)
            al.actions += ["rename %s->%s" % (a, b) for a, b in sorted(full.items())]
        second_pass()
    ast.fix_missing_locations(cfunc)
    return pre_acts + al.actions


# ------------------------------------------------------------------ N6: helpers that the reference does not have are inlined again
def _single_tail_return(g):
    rets = [n for n in ast.walk(g) if isinstance(n, ast.Return)]
    nested = [n for n in ast.walk(g) if isinstance(n, SCOPES) and n is not g]
    if nested:
        return None
    if not rets:
        return ast.Constant(value=None)
    if len(rets) == 1 and g.body and g.body[-1] is rets[0]:
        return rets[0].value if rets[0].value is not None else ast.Constant(value=None)
    return None


def _view_stable(e):
    """a name, or subscripts / attributes over names with pure indices: evaluating it again yields the same object / view"""
    if isinstance(e, ast.Name):
        return True
    if isinstance(e, ast.Constant):
        return True
    if isinstance(e, ast.Attribute):
        return _view_stable(e.value)
    if isinstance(e, ast.Subscript):
        return _view_stable(e.value) and pure_index(e.slice) if not isinstance(e.slice, (ast.Slice, ast.Tuple)) else \
            _view_stable(e.value) and all(pure_index(x) for x in ast.walk(e.slice) if isinstance(x, ast.expr) and not isinstance(x, (ast.Slice, ast.Tuple, ast.Load)))
    if isinstance(e, (ast.BinOp, ast.UnaryOp)):
        return pure_index(e)
    return False


def _same_expr(a, b):
    return ast.dump(a) == ast.dump(b)


def _has_return(stmts):
    return any(isinstance(n, ast.Return) for s in stmts for n in ast.walk(s))


def _convert_returns(stmts, mk):
    """statement list with guard-style early returns -> equivalent list without `return`, where mk(value) builds the statement that
    delivers the result (assignment to the call's target / expression statement / a real return).  None when a return sits in a position
    this conversion does not cover (inside a loop, a try, a with, or an `if` whose arms do not both end the function)."""
    out = []
    for i, s in enumerate(stmts):
        if isinstance(s, ast.Return):
            out += mk(s.value if s.value is not None else ast.Constant(value=None))
            return out
        if not _has_return([s]):
            out.append(s)
            continue
        if not isinstance(s, ast.If):
            return None
        rest = stmts[i + 1:]
        ends_b = bool(s.body) and isinstance(s.body[-1], ast.Return)
        ends_o = bool(s.orelse) and isinstance(s.orelse[-1], ast.Return)
        if ends_b and not s.orelse:
            b = _convert_returns(s.body, mk)
            o = _convert_returns(rest, mk) if rest else mk(ast.Constant(value=None))
        elif ends_b and ends_o:
            b = _convert_returns(s.body, mk)
            o = _convert_returns(s.orelse, mk)
        elif ends_b and s.orelse and not _has_return(s.orelse):
            b = _convert_returns(s.body, mk)
            o = _convert_returns(list(s.orelse) + rest, mk) if rest else list(s.orelse) + mk(ast.Constant(value=None))
        else:
            return None
        if b is None or o is None:
            return None
        out.append(ast.copy_location(ast.If(test=s.test, body=b or [ast.Pass()], orelse=o), s))
        return out
    out += mk(ast.Constant(value=None))
    return out


def _hoist_nested_helper_calls(func, helpers):
    """`return a, h(b)` / `t = g(x)[0] if ..`: a call of a new helper that is nested inside a return / assignment is first bound to a
    temporary placed just before the statement - allowed when every other sub-expression of the statement is call-free, so no evaluation
    order changes."""
    k = 0
    for p in ast.walk(func):
        for f in ("body", "orelse", "finalbody"):
            b = getattr(p, f, None)
            if not isinstance(b, list):
                continue
            i = 0
            while i < len(b):
                s = b[i]
                if isinstance(s, (ast.Return, ast.Assign)) and s.value is not None and not (isinstance(s.value, ast.Call) and
                                                                                           isinstance(s.value.func, ast.Name) and s.value.func.id in helpers):
                    calls = [c for c in ast.walk(s.value) if isinstance(c, ast.Call)]
                    hc = [c for c in calls if isinstance(c.func, ast.Name) and c.func.id in helpers]
                    inner = {id(x) for c in hc for x in ast.walk(c) if x is not c}
                    others = [c for c in calls if c not in hc and id(c) not in inner]
                    bad_ctx = any(isinstance(x, (ast.IfExp, ast.BoolOp, ast.Lambda, ast.ListComp, ast.GeneratorExp, ast.DictComp, ast.SetComp))
                                  for x in ast.walk(s.value))
                    if len(hc) == 1 and not others and not bad_ctx:
                        k += 1
                        tmp = "hr__%d" % k
                        call = hc[0]

                        class _R(ast.NodeTransformer):
                            def visit_Call(self, n):
                                if n is call:
                                    return ast.copy_location(ast.Name(id=tmp, ctx=ast.Load()), n)
                                return self.generic_visit(n)
                        s.value = _R().visit(s.value)
                        b.insert(i, ast.copy_location(ast.Assign(targets=[ast.Name(id=tmp, ctx=ast.Store())], value=call, lineno=s.lineno), s))
                        i += 1
                i += 1
    if k:
        ast.fix_missing_locations(func)
    return k


def inline_new_helpers(func, helpers, counter, origin=None):
    """`t = h(args)` / `h(args)` / `return h(args)` with h a module-level function of the current module that the reference module does not
    define, h straight (one return, at the end), no recursion: the call statement is replaced by h's body with fresh local names.
    Evaluation order is preserved: arguments are bound first, in order, then the body runs, then the result is bound."""
    origin = {} if origin is None else origin
    _hoist_nested_helper_calls(func, helpers)
    done = []
    for _ in range(8):
        hit = None
        for p in ast.walk(func):
            for f in ("body", "orelse", "finalbody"):
                b = getattr(p, f, None)
                if not isinstance(b, list):
                    continue
                for i, s in enumerate(b):
                    call = None
                    if isinstance(s, ast.Assign) and len(s.targets) == 1 and isinstance(s.targets[0], ast.Name) and isinstance(s.value, ast.Call):
                        call = s.value
                    elif isinstance(s, (ast.Expr, ast.Return)) and isinstance(s.value, ast.Call):
                        call = s.value
                    if call is None or not isinstance(call.func, ast.Name) or call.func.id not in helpers or call.func.id == func.name:
                        continue
                    g = helpers[call.func.id]
                    ret = _single_tail_return(g)
                    if ret is None and not any(isinstance(n_, SCOPES) and n_ is not g for n_ in ast.walk(g)) and \
                            _convert_returns([x for x in g.body], lambda v: []) is not None:
                        ret = ast.Constant(value=Ellipsis)      # marker: structured conversion needed
                    a = g.args
                    if ret is None or a.vararg or a.kwarg or a.kwonlyargs or a.posonlyargs or any(isinstance(x, ast.Starred) for x in call.args) \
                            or any(k.arg is None for k in call.keywords) or len(call.args) > len(a.args):
                        continue
                    if any(isinstance(x, ast.Call) and isinstance(x.func, ast.Name) and x.func.id == g.name for x in ast.walk(g)):
                        continue
                    hit = (b, i, s, call, g, ret)
                    break
                if hit:
                    break
            if hit:
                break
        if not hit:
            break
        b, i, s, call, g, ret = hit
        counter[0] += 1
        sfx = "__h%d" % counter[0]
        g2 = copy.deepcopy(g)
        ret2 = _single_tail_return(g2)
        names = locals_of(g2) | params_of(g2)
        target = s.targets[0].id if isinstance(s, ast.Assign) else None
        caller_names = {x.id for x in ast.walk(func) if isinstance(x, ast.Name)} | params_of(func)
        reusable = origin.setdefault(g.name, set())
        ren = {}
        for n in names:
            if n not in caller_names or n in reusable:
                ren[n] = n                  # free in the caller, or left there by an earlier inline of this same helper (defined before use)
                reusable.add(n)
            else:
                ren[n] = n + sfx
        argnames = {x.id for a_ in list(call.args) + [k.value for k in call.keywords] for x in ast.walk(a_) if isinstance(x, ast.Name)}
        for n in list(ren):
            if ren[n] == n and n in argnames and n in params_of(g2) and False:
                ren[n] = n + sfx
        if target and isinstance(ret2, ast.Name) and ret2.id in names and target not in argnames - {target}:
            ren[ret2.id] = target        # the returned local takes the caller's name directly
        # a parameter that is never rebound and receives a plain name is that name (alias): no fresh symbol needed
        rebound = {x.id for x in ast.walk(g2) if isinstance(x, ast.Name) and isinstance(x.ctx, (ast.Store, ast.Del))}
        opn = [x.arg for x in g2.args.args]
        for k_, av in enumerate(call.args):
            if isinstance(av, ast.Name) and k_ < len(opn) and opn[k_] not in rebound:
                ren[opn[k_]] = av.id
        for kw in call.keywords:
            if kw.arg in opn and isinstance(kw.value, ast.Name) and kw.arg not in rebound:
                ren[kw.arg] = kw.value.id
        _Rename(ren, set()).visit(g2)
        for x in ast.walk(g2):
            if isinstance(x, ast.arg) and x.arg in ren:
                x.arg = ren[x.arg]
        pnames = [x.arg for x in g2.args.args]
        binds = []
        subst = {}
        bound_in_body = {x.id for x in ast.walk(g2) if isinstance(x, ast.Name) and isinstance(x.ctx, (ast.Store, ast.Del))}
        rebound_after = bound_in_body
        given = {}
        for k_, av in enumerate(call.args):
            given[pnames[k_]] = av
        defaults = dict(zip(pnames[len(pnames) - len(g2.args.defaults):], g2.args.defaults))
        orig_pn = [x.arg for x in g.args.args]
        for kw in call.keywords:
            if kw.arg in orig_pn:
                given[pnames[orig_pn.index(kw.arg)]] = kw.value
        ok = True
        for pn in pnames:
            v = given.get(pn, defaults.get(pn))
            if v is None:
                ok = False
                break
            if isinstance(v, ast.Name) and v.id == pn:
                continue
            if pn not in rebound_after and _view_stable(v):
                base = v
                while isinstance(base, (ast.Subscript, ast.Attribute)):
                    base = base.value
                others = [a_ for q, a_ in given.items() if q != pn]
                shared = isinstance(base, ast.Name) and any(isinstance(x, ast.Name) and x.id == base.id for a_ in others
                                                            for x in ast.walk(a_) if not _same_expr(a_, v))
                idx_names = {x.id for x in ast.walk(v) if isinstance(x, ast.Name)} - ({base.id} if isinstance(base, ast.Name) else set())
                if not shared and not (idx_names & bound_in_body):
                    subst[pn] = v
                    continue
            binds.append(ast.copy_location(ast.Assign(targets=[ast.Name(id=pn, ctx=ast.Store())], value=v, lineno=s.lineno), s))
        if not ok:
            helpers = {k_: v_ for k_, v_ in helpers.items() if k_ != g.name}
            continue
        if subst:
            class _SubP(ast.NodeTransformer):
                def visit_Name(self, n):
                    if n.id in subst and isinstance(n.ctx, ast.Load):
                        return ast.copy_location(copy.deepcopy(subst[n.id]), n)
                    return n
            for k_ in range(len(g2.body)):
                g2.body[k_] = _SubP().visit(g2.body[k_])
        body = [x for x in g2.body if not (isinstance(x, ast.Expr) and isinstance(x.value, ast.Constant))]
        structured = isinstance(ret, ast.Constant) and ret.value is Ellipsis
        if structured:
            if isinstance(s, ast.Assign):
                mk = lambda v: [ast.Assign(targets=[ast.Name(id=target, ctx=ast.Store())], value=v, lineno=s.lineno)]
            elif isinstance(s, ast.Return):
                mk = lambda v: [ast.Return(value=v)]
            else:
                mk = lambda v: ([ast.Expr(value=v)] if isinstance(v, ast.Call) else [])
            body = _convert_returns(body, mk)
        elif body and isinstance(body[-1], ast.Return):
            body = body[:-1]
        for x in body:
            for y in ast.walk(x):
                if hasattr(y, "lineno"):
                    y.lineno = s.lineno
                    y.end_lineno = s.lineno
        tail = []
        rv = _single_tail_return(g2) if g2.body and isinstance(g2.body[-1], ast.Return) else ast.Constant(value=None)
        if structured:
            pass
        elif isinstance(s, ast.Assign):
            if not (isinstance(rv, ast.Name) and rv.id == target):
                tail = [ast.copy_location(ast.Assign(targets=[ast.Name(id=target, ctx=ast.Store())], value=rv, lineno=s.lineno), s)]
        elif isinstance(s, ast.Return):
            tail = [ast.copy_location(ast.Return(value=rv), s)]
        b[i:i + 1] = binds + body + tail
        ast.fix_missing_locations(func)
        done.append(g.name)
    return done


_REF_CACHE = {}


def reference_functions(short):
    """top-level functions of the reference copy of module `short` ('tools.fimo')"""
    if short not in _REF_CACHE:
        path = os.path.join(REFERENCE_DIR, "tangermeme", *short.split(".")) + ".py"
        fs = {}
        if os.path.exists(path):
            try:
                tree = ast.parse(open(path).read())
                fs = {n.name: n for n in tree.body if isinstance(n, ast.FunctionDef)}
            except SyntaxError:
                fs = {}
        _REF_CACHE[short] = fs
    return _REF_CACHE[short]


def canonicalise_module(short, tree):
    """-> {function name: [actions]} for functions that were changed"""
    if os.environ.get("TMVERIF_NO_CANON"):
        return {}
    ref = reference_functions(short)
    log = {}
    def _plain(n):
        # undecorated, or compiled by numba without options that change arithmetic (a jitted helper called from a jitted caller is
        # inlined by numba as well)
        for d in n.decorator_list:
            t = ast.unparse(d)
            if not (t.startswith(("numba.njit", "njit", "numba.jit", "jit")) and "fastmath" not in t and "parallel" not in t):
                return False
        return True
    helpers = {n.name: n for n in tree.body if isinstance(n, ast.FunctionDef) and n.name not in ref and _plain(n)} if ref else {}
    # `from torch.nn.functional import conv1d` ; conv1d(..)  ->  torch.nn.functional.conv1d(..)   (only names the reference module does not import)
    ref_imported = set()
    try:
        rp = os.path.join(REFERENCE_DIR, "tangermeme", *short.split(".")) + ".py"
        for n_ in ast.parse(open(rp).read()).body:
            if isinstance(n_, ast.ImportFrom):
                ref_imported.update(a.asname or a.name for a in n_.names)
    except OSError:
        pass
    dotted_of = {}
    for n_ in tree.body:
        if isinstance(n_, ast.ImportFrom) and n_.module and n_.module.split(".")[0] in ("torch", "numpy", "math") and not n_.level:
            for a in n_.names:
                nm = a.asname or a.name
                if nm not in ref_imported and a.name != "*":
                    dotted_of[nm] = n_.module + "." + a.name
    if dotted_of:
        class _Dot(ast.NodeTransformer):
            def visit_Name(self, n):
                if n.id in dotted_of and isinstance(n.ctx, ast.Load):
                    parts = dotted_of[n.id].split(".")
                    e = ast.Name(id=parts[0], ctx=ast.Load())
                    for p_ in parts[1:]:
                        e = ast.Attribute(value=e, attr=p_, ctx=ast.Load())
                    return ast.copy_location(e, n)
                return n
        for n_ in tree.body:
            if isinstance(n_, ast.FunctionDef) and not any(isinstance(x, ast.Name) and isinstance(x.ctx, ast.Store) and x.id in dotted_of for x in ast.walk(n_)) \
                    and not (set(dotted_of) & params_of(n_)):
                _Dot().visit(n_)
                ast.fix_missing_locations(n_)
    _RESOLVE.clear()
    for n_ in tree.body:
        if isinstance(n_, ast.ImportFrom) and n_.level:
            pkg = short.split(".")[:-1]
            up = n_.level - 1
            if up > len(pkg):
                continue
            base = pkg[:len(pkg) - up] + ([x for x in n_.module.split(".")] if n_.module else [])
            for a in n_.names:
                if a.name != "*" and (".".join(base), a.name) in PACKAGE_SIGNATURES:
                    _RESOLVE[a.asname or a.name] = (".".join(base), a.name)
    for n_ in tree.body:
        if isinstance(n_, ast.FunctionDef) and (short, n_.name) in PACKAGE_SIGNATURES:
            _RESOLVE[n_.name] = (short, n_.name)
    # a module-level name bound any other way (assignment, class, plain import) is not a resolved package function
    for n_ in tree.body:
        if isinstance(n_, (ast.Assign, ast.AnnAssign, ast.AugAssign)):
            for x in ast.walk(n_):
                if isinstance(x, ast.Name) and isinstance(x.ctx, ast.Store):
                    _RESOLVE.pop(x.id, None)
        elif isinstance(n_, ast.ClassDef):
            _RESOLVE.pop(n_.name, None)
    counter = [0]
    origin = {}
    for n in tree.body:
        if isinstance(n, ast.FunctionDef):
            if n.name in ref and helpers:
                inl = inline_new_helpers(n, helpers, counter, {})
                if inl:
                    log.setdefault(n.name, []).extend("inline-helper %s" % h for h in inl)
            if n.name in ref:
                if ast.dump(n) == ast.dump(ref[n.name]) and not os.environ.get("TMVERIF_CANON_SELFCHECK"):
                    normalise(n)
                    continue
                acts = canonicalise_function(n, ref[n.name])
            else:
                normalise(n)
                acts = []
            if acts:
                log.setdefault(n.name, []).extend(acts)
    return log


# ------------------------------------------------------------------ how far is a function from its reference version?
def _flat(func):
    """pre-order list of statement keys: simple statements by their dump, compound statements by their header"""
    out = []

    def walk(stmts):
        for s in stmts:
            if isinstance(s, ast.Expr) and isinstance(s.value, ast.Constant):
                continue
            if isinstance(s, ast.Pass):
                continue
            if isinstance(s, (ast.For, ast.While, ast.If, ast.With, ast.Try)):
                c = copy.copy(s)
                for f in ("body", "orelse", "finalbody", "handlers"):
                    if hasattr(c, f):
                        setattr(c, f, [])
                out.append(ast.dump(c))
                for f in ("body", "orelse", "finalbody"):
                    walk(getattr(s, f, []) or [])
                for h in getattr(s, "handlers", []) or []:
                    out.append("except " + (ast.dump(h.type) if h.type is not None else ""))
                    walk(h.body)
            else:
                out.append(ast.dump(s))
    walk(func.body)
    return out


def edit_kind(cfunc, rfunc):
    """'identical' | 'first-order' (statements deleted only, or exactly one statement replaced and nothing else) | 'rewritten' ; with (deleted, inserted, replaced)"""
    a, b = _flat(rfunc), _flat(cfunc)
    if a == b and ast.dump(cfunc.args) == ast.dump(rfunc.args) and [ast.dump(d) for d in cfunc.decorator_list] == [ast.dump(d) for d in rfunc.decorator_list]:
        return "identical", (0, 0, 0)
    dele = ins = rep = 0
    for tag, i1, i2, j1, j2 in difflib.SequenceMatcher(None, a, b, autojunk=False).get_opcodes():
        if tag == "delete":
            dele += i2 - i1
        elif tag == "insert":
            ins += j2 - j1
        elif tag == "replace":
            k = min(i2 - i1, j2 - j1)
            rep += k
            dele += (i2 - i1) - k
            ins += (j2 - j1) - k
    if ins == 0 and (rep == 0 or (rep == 1 and dele == 0)):
        return "first-order", (dele, ins, rep)
    return "rewritten", (dele, ins, rep)


def rewritten_functions(repo, ref):
    """qualified names of functions (and modules whose top level changed) that differ from the reference by more than a first-order edit"""
    out = []
    for short in sorted(repo.mods):
        if short not in ref.mods:
            out.append("%s (new module)" % short)
            continue
        ct, rt = repo.mods[short].tree, ref.mods[short].tree
        cf = {n.name: n for n in ct.body if isinstance(n, ast.FunctionDef)}
        rf = {n.name: n for n in rt.body if isinstance(n, ast.FunctionDef)}
        for name in sorted(cf):
            if name not in rf:
                out.append("%s.%s (new function)" % (short, name))
                continue
            k, (d, i, r) = edit_kind(cf[name], rf[name])
            if k == "rewritten":
                out.append("%s.%s (-%d +%d ~%d statements)" % (short, name, d, i, r))
    return out


def value_returns(func):
    """number of `return <value>` statements of the function itself (nested functions excluded)"""
    n = 0
    stack = list(func.body)
    while stack:
        x = stack.pop()
        if isinstance(x, SCOPES):
            continue
        if isinstance(x, ast.Return) and x.value is not None and not (isinstance(x.value, ast.Constant) and x.value.value is None):
            n += 1
        stack.extend(ast.iter_child_nodes(x))
    return n


# ------------------------------------------------------------------ N15: renamed module-level functions
def module_function_renames(short, tree):
    """{current name: reference name} for top-level functions that exist under another name in the reference module: a function of the
    current module that the reference does not have is matched with a reference function the current module does not have when their
    bodies have the same shape (name-abstracted statements, ratio >= 0.75), the same number of parameters, and the match is unique both
    ways.  Renaming a function consistently (definition, uses, imports) is alpha-conversion at module level."""
    ref = reference_functions(short)
    if not ref:
        return {}
    cur = {n.name: n for n in tree.body if isinstance(n, ast.FunctionDef)}
    c_only = [n for k, n in cur.items() if k not in ref]
    r_only = [n for k, n in ref.items() if k not in cur]
    if not c_only or not r_only:
        return {}

    def key(f):
        g = copy.deepcopy(f)
        normalise(g)
        locs = locals_of(g) | params_of(g)
        return [shape(s_, locs, shallow=True) for s_ in ast.walk(g) if isinstance(s_, ast.stmt) and s_ is not g]
    ck = {f.name: key(f) for f in c_only}
    rk = {f.name: key(f) for f in r_only}
    scores = {}
    for c in c_only:
        for r in r_only:
            if len(c.args.args) != len(r.args.args):
                continue
            scores[(c.name, r.name)] = difflib.SequenceMatcher(None, ck[c.name], rk[r.name], autojunk=False).ratio()
    out = {}
    for (c, r), v in sorted(scores.items(), key=lambda kv: -kv[1]):
        if v < 0.75 or c in out or r in out.values():
            continue
        # unique: no other candidate within 0.1 for either side
        rivals = [w for (c2, r2), w in scores.items() if (c2 == c) != (r2 == r) and w > v - 0.1]
        if rivals:
            continue
        out[c] = r
    return out


def apply_function_renames(short, tree, all_renames, pkg_of=None):
    """rename definitions and uses in the defining module; rewrite `from <module> import <new>` and the uses in importing modules"""
    acts = []
    own = all_renames.get(short, {})
    ren = dict(own)
    for n in tree.body:
        if isinstance(n, ast.ImportFrom) and n.module is not None or isinstance(n, ast.ImportFrom):
            base = n.module or ""
            if n.level:
                pkg = short.split(".")[:-1]
                up = n.level - 1
                if up:
                    pkg = pkg[:-up]
                base = ".".join([p for p in pkg if p] + ([base] if base else []))
            elif base.startswith("tangermeme."):
                base = base[len("tangermeme."):]
            m = all_renames.get(base)
            if m:
                for a in n.names:
                    if a.name in m:
                        if a.asname is None:
                            ren[a.name] = m[a.name]
                        a.name = m[a.name]
    if not ren:
        return acts
    for n in ast.walk(tree):
        if isinstance(n, ast.FunctionDef) and n in tree.body and n.name in own:
            acts.append("function %s->%s" % (n.name, own[n.name]))
            n.name = own[n.name]
        elif isinstance(n, ast.Name) and n.id in ren:
            n.id = ren[n.id]
    return acts
