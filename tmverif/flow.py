"""Trace-partitioned abstract interpretation over the linear-constraint domain.

For one function the interpreter walks the structured statements once
(syntax-directed, no CFG library needed for this repository's statement kinds)
and keeps a *set* of abstract states (one per combination of relevant branch
outcomes - trace partitioning, no lossy join).  An abstract state is

  env    variable -> linear form over atoms (its integer value if tracked)
  sver   variable -> "shape version" naming the tensor value it currently holds
  null   variable -> 'none' | 'notnone' (for ``x is None`` tests)
  G      list of linear constraints known to hold (from guards whose failing
         arm raises/returns/continues, from loop ranges, from floor-div / min /
         max axioms, and from extent equalities of tensor-valued assignments)

Loops are not unrolled: variables assigned in the body are havocked (fresh
atoms) at loop entry and after the loop; the loop variable of ``range`` gets its
bounds.  The states reaching every statement are recorded so rules can evaluate
index expressions at a site and ask the affine engine for entailment.
"""
import ast
from .affine import Lin, ge, le, gt, lt, entails, find_counter_model, cone, _infeasible
from .front import dotted, const_value, unparse, AnalysisError, assigned_names

SHAPE_PRESERVING_METHODS = {
    "clone", "to", "type", "cpu", "cuda", "float", "double", "int", "long", "half",
    "numpy", "detach", "contiguous", "requires_grad_", "copy", "astype", "bool",
    "flip",
}
SHAPE_PRESERVING_FUNCS = {
    "torch.clone", "torch.from_numpy", "torch.zeros_like", "torch.ones_like",
    "numpy.zeros_like", "numpy.ones_like", "numpy.empty_like", "torch.empty_like",
    "torch.flip", "torch.abs", "numpy.copy", "torch.as_tensor", "_cast_as_tensor",
    "numpy.nan_to_num",
}
INT_CASTS = {"int", "numpy.uint64", "uint64", "numpy.int64", "numpy.int32", "numpy.uint32",
             "numpy.int16", "numpy.int8", "numba.uint64", "numba.int64"}

MAX_STATES = 3000


class State:
    __slots__ = ("env", "sver", "null", "G", "trace", "rank")

    def __init__(self):
        self.env = {}
        self.sver = {}
        self.null = {}
        self.G = []
        self.trace = ()
        self.rank = {}

    def copy(self):
        s = State()
        s.env = dict(self.env)
        s.sver = dict(self.sver)
        s.null = dict(self.null)
        s.G = list(self.G)
        s.trace = self.trace
        s.rank = dict(self.rank)
        return s

    def key(self):
        return (tuple(sorted((k, v.key()) for k, v in self.env.items())),
                tuple(sorted(self.sver.items())),
                tuple(sorted(self.null.items())),
                tuple(sorted(g.key() for g in self.G)))

    def add(self, *cons):
        for c in cons:
            if c.is_const():
                continue
            if c not in self.G:
                self.G.append(c)

    def feasible_trivially(self):
        for g in self.G:
            if g.is_const() and g.c < 0:
                return False
        return True


class AbsInt:
    def __init__(self, fi, ranks=None, nonneg_params=(), int_params=None, int_arrays=(), null_preserving=(), assume=()):
        self.fi = fi
        self._assume0 = list(assume)
        self.null_preserving = set(null_preserving)   # callee names with f(None) is None and f(x) is not None otherwise
        self.ranks = dict(ranks or {})
        self.int_arrays = set(int_arrays)
        ip = set(int_params or ())
        dp = fi.docparams()
        for p in fi.params:
            d = fi.defaults.get(p)
            if isinstance(d, ast.Constant) and isinstance(d.value, int) and not isinstance(d.value, bool):
                ip.add(p)
            if dp.get(p, {}).get("kind") == "int":
                ip.add(p)
            sh = dp.get(p, {}).get("shape")
            if sh is not None and p not in self.ranks and dp[p]["kind"] == "tensor":
                from .front import split_top
                self.ranks[p] = len(split_top(sh))
        self.int_params = ip
        self.imprecise_loops = set()
        self.free_atoms = set()      # atoms of loop variables whose iteration domain the engine could not read (any value is possible)
        self.axioms = []      # definitional constraints of derived atoms (floor-div / mod), universally valid
        self.at = {}          # id(stmt) -> [State]  (state *before* the statement)
        self.after = {}       # id(stmt) -> [State]  (states after the statement, normal completion)
        self.returns = []     # (Return node, State)
        self.raises = []      # (Raise node, State)
        self.nodes = {}
        s = State()
        for p in fi.params:
            s.sver[p] = p
            if p in self.ranks:
                s.rank[p] = self.ranks[p]
            d = fi.defaults.get(p)
            if d is not None and isinstance(d, ast.Constant) and d.value is None:
                pass  # nullness unknown
            elif d is not None and isinstance(d, ast.Constant) and isinstance(d.value, int) \
                    and not isinstance(d.value, bool):
                pass
        for p in nonneg_params:
            s.add(ge(Lin.atom(p), 0))
        for c in self._assume0:
            s.add(c)
        self.init = s
        self.final = self.block(fi.node.body, [s])

    # ------------------------------------------------------------ expressions
    def shape_atom(self, st, base, k):
        """atom for <base>.shape[k] (k int)"""
        ver = st.sver.get(base, base)
        rank = st.rank.get(base)
        if rank is not None and k >= 0:
            k = k - rank
        a = "%s.shape[%d]" % (ver, k)
        return a

    def lin_alts(self, st, e):
        """-> list of (Lin, [extra constraints]) alternatives, or None if `e` is not integer-like"""
        if isinstance(e, ast.Constant):
            if isinstance(e.value, bool):
                return [(Lin(int(e.value)), [])]
            if isinstance(e.value, int):
                return [(Lin(e.value), [])]
            return None
        if isinstance(e, ast.Name):
            if e.id in st.env:
                return [(st.env[e.id], [])]
            return [(Lin.atom(st.sver.get(e.id, e.id)), [])]
        if isinstance(e, ast.UnaryOp) and isinstance(e.op, ast.USub):
            r = self.lin_alts(st, e.operand)
            return None if r is None else [(-l, c) for l, c in r]
        if isinstance(e, ast.UnaryOp) and isinstance(e.op, ast.UAdd):
            return self.lin_alts(st, e.operand)
        if isinstance(e, ast.BinOp):
            if isinstance(e.op, (ast.Add, ast.Sub)):
                a = self.lin_alts(st, e.left)
                b = self.lin_alts(st, e.right)
                if a is None or b is None:
                    return None
                out = []
                for la, ca in a:
                    for lb, cb in b:
                        out.append((la + lb if isinstance(e.op, ast.Add) else la - lb, ca + cb))
                return out
            if isinstance(e.op, ast.Mult):
                a = self.lin_alts(st, e.left)
                b = self.lin_alts(st, e.right)
                if a is None or b is None:
                    return None
                out = []
                for la, ca in a:
                    for lb, cb in b:
                        if la.is_const():
                            out.append((lb.scale(la.c), ca + cb))
                        elif lb.is_const():
                            out.append((la.scale(lb.c), ca + cb))
                        else:
                            # non-linear product: opaque atom, canonical name
                            n1, n2 = sorted([repr(la), repr(lb)])
                            out.append((Lin.atom("(%s)*(%s)" % (n1, n2)), ca + cb))
                return out
            if isinstance(e.op, (ast.FloorDiv, ast.Mod)):
                a = self.lin_alts(st, e.left)
                b = self.lin_alts(st, e.right)
                if a is None or b is None:
                    return None
                out = []
                for la, ca in a:
                    for lb, cb in b:
                        if lb.is_const() and lb.c > 0:
                            k = lb.c
                            if la.is_const():
                                out.append((Lin(la.c // k if isinstance(e.op, ast.FloorDiv) else la.c % k), ca + cb))
                                continue
                            q = Lin.atom("(%r)//%d" % (la, k))
                            ax = [ge(la, q.scale(k)), le(la, q.scale(k) + (k - 1))]
                            for x_ in ax:
                                if x_ not in self.axioms:
                                    self.axioms.append(x_)
                            if isinstance(e.op, ast.FloorDiv):
                                out.append((q, ca + cb + ax))
                            else:
                                out.append((la - q.scale(k), ca + cb + ax))
                        else:
                            out.append((Lin.atom("(%r)%s(%r)" % (la, "//" if isinstance(e.op, ast.FloorDiv) else "%", lb)), ca + cb))
                return out
            return None
        if isinstance(e, ast.Call):
            d = dotted(e.func)
            if d in INT_CASTS and len(e.args) == 1:
                return self.lin_alts(st, e.args[0])
            if d == "len" and len(e.args) == 1:
                arg = e.args[0]
                if isinstance(arg, ast.Name):
                    base = arg.id
                    if st.rank.get(base) is not None:
                        a = Lin.atom(self.shape_atom(st, base, 0))
                    else:
                        a = Lin.atom("len(%s)" % st.sver.get(base, base))
                else:
                    a = Lin.atom("len(%s)" % self.canon(st, arg))
                return [(a, [ge(a, 0)])]
            if d in ("max", "min") and len(e.args) == 2 and not e.keywords:
                a = self.lin_alts(st, e.args[0])
                b = self.lin_alts(st, e.args[1])
                if a is None or b is None:
                    return None
                out = []
                for la, ca in a:
                    for lb, cb in b:
                        if d == "max":
                            out.append((la, ca + cb + [ge(la, lb)]))
                            out.append((lb, ca + cb + [ge(lb, la + 1)]))
                        else:
                            out.append((la, ca + cb + [le(la, lb)]))
                            out.append((lb, ca + cb + [le(lb, la - 1)]))
                return out
            if d == "abs" and len(e.args) == 1:
                a = self.lin_alts(st, e.args[0])
                if a is None:
                    return None
                out = []
                for la, ca in a:
                    out.append((la, ca + [ge(la, 0)]))
                    out.append((-la, ca + [le(la, -1)]))
                return out
            if isinstance(e.func, ast.Attribute) and e.func.attr == "item" and not e.args:
                return self.lin_alts(st, e.func.value)
            # x.size(k) is x.shape[k]; len(x) is x.shape[0] for an array of known rank
            if isinstance(e.func, ast.Attribute) and e.func.attr == "size" and len(e.args) == 1 and not e.keywords \
                    and isinstance(e.func.value, ast.Name) and isinstance(const_value(e.args[0]), int):
                a = Lin.atom(self.shape_atom(st, e.func.value.id, const_value(e.args[0])))
                return [(a, [ge(a, 0)])]
            if isinstance(e.func, ast.Name) and e.func.id == "len" and len(e.args) == 1 and isinstance(e.args[0], ast.Name) \
                    and st.rank.get(e.args[0].id) is not None:
                a = Lin.atom(self.shape_atom(st, e.args[0].id, 0))
                return [(a, [ge(a, 0)])]
            return [(Lin.atom(self.canon(st, e)), [])]
        if isinstance(e, ast.Subscript):
            # X.shape[k]
            if isinstance(e.value, ast.Attribute) and e.value.attr == "shape" and \
                    isinstance(e.value.value, ast.Name):
                k = const_value(e.slice)
                if isinstance(k, int):
                    a = Lin.atom(self.shape_atom(st, e.value.value.id, k))
                    return [(a, [ge(a, 0)])]
            return [(Lin.atom(self.canon(st, e)), [])]
        if isinstance(e, ast.Attribute):
            return [(Lin.atom(self.canon(st, e)), [])]
        if isinstance(e, ast.IfExp):
            t, f = self.cond(st, e.test)
            a = self.lin_alts(st, e.body)
            b = self.lin_alts(st, e.orelse)
            if a is None or b is None:
                return None
            out = []
            for conj in t:
                for la, ca in a:
                    out.append((la, ca + conj))
            for conj in f:
                for lb, cb in b:
                    out.append((lb, cb + conj))
            return out
        return None

    def canon(self, st, e):
        """canonical text of an expression with variables replaced by their current versions"""
        class R(ast.NodeTransformer):
            def visit_Name(s, n):
                if n.id in st.env and isinstance(n.ctx, ast.Load):
                    return ast.Name(id="<%r>" % st.env[n.id], ctx=n.ctx)
                return ast.Name(id=st.sver.get(n.id, n.id), ctx=n.ctx)
        import copy
        return ast.unparse(R().visit(copy.deepcopy(e)))

    def lin(self, st, e):
        """single linear form (adds axioms to st); None if not integer-like or ambiguous"""
        r = self.lin_alts(st, e)
        if r is None or len(r) != 1:
            return None
        st.add(*r[0][1])
        return r[0][0]

    # ------------------------------------------------------------ conditions
    def cond(self, st, test):
        """-> (DNF_true, DNF_false); a DNF is a list of conjunctions (lists of Lin or ('null',var,val))"""
        if isinstance(test, ast.BoolOp):
            parts = [self.cond(st, v) for v in test.values]
            if isinstance(test.op, ast.Or):
                # true: p1 | (!p1 & p2) | ...   false: !p1 & !p2 & ...
                t = []
                prefix = [[]]
                for pt, pf in parts:
                    for pre in prefix:
                        for conj in pt:
                            t.append(pre + conj)
                    prefix = [pre + conj for pre in prefix for conj in pf]
                f = prefix
                return t, f
            else:
                f = []
                prefix = [[]]
                for pt, pf in parts:
                    for pre in prefix:
                        for conj in pf:
                            f.append(pre + conj)
                    prefix = [pre + conj for pre in prefix for conj in pt]
                t = prefix
                return t, f
        if isinstance(test, ast.UnaryOp) and isinstance(test.op, ast.Not):
            t, f = self.cond(st, test.operand)
            return f, t
        if isinstance(test, ast.Compare):
            # chained comparisons -> conjunction
            items = []
            left = test.left
            for op, right in zip(test.ops, test.comparators):
                items.append((left, op, right))
                left = right
            if len(items) > 1:
                conj = ast.BoolOp(op=ast.And(), values=[ast.Compare(left=l, ops=[o], comparators=[r]) for l, o, r in items])
                return self.cond(st, conj)
            l, op, r = items[0]
            if isinstance(op, (ast.Is, ast.IsNot)) and isinstance(r, ast.Constant) and r.value is None \
                    and isinstance(l, ast.Name):
                isnone = [[("null", l.id, "none")]]
                notnone = [[("null", l.id, "notnone")]]
                return (isnone, notnone) if isinstance(op, ast.Is) else (notnone, isnone)
            if isinstance(op, (ast.Lt, ast.LtE, ast.Gt, ast.GtE, ast.Eq, ast.NotEq)):
                # comparisons with True/False constants (`left == True`) are boolean, not integer
                if isinstance(r, ast.Constant) and isinstance(r.value, bool):
                    return [[]], [[]]
                a = self.lin_alts(st, l)
                b = self.lin_alts(st, r)
                if a is None or b is None:
                    return [[]], [[]]
                t, f = [], []
                for la, ca in a:
                    for lb, cb in b:
                        pre = ca + cb
                        if isinstance(op, ast.Lt):
                            t.append(pre + [lt(la, lb)]); f.append(pre + [ge(la, lb)])
                        elif isinstance(op, ast.LtE):
                            t.append(pre + [le(la, lb)]); f.append(pre + [gt(la, lb)])
                        elif isinstance(op, ast.Gt):
                            t.append(pre + [gt(la, lb)]); f.append(pre + [le(la, lb)])
                        elif isinstance(op, ast.GtE):
                            t.append(pre + [ge(la, lb)]); f.append(pre + [lt(la, lb)])
                        elif isinstance(op, ast.Eq):
                            t.append(pre + [ge(la, lb), le(la, lb)])
                            f.append(pre + [lt(la, lb)]); f.append(pre + [gt(la, lb)])
                        else:
                            f.append(pre + [ge(la, lb), le(la, lb)])
                            t.append(pre + [lt(la, lb)]); t.append(pre + [gt(la, lb)])
                return t, f
        if isinstance(test, ast.Name) and self.is_int_var(st, test.id):
            a = self.lin_alts(st, test)
            if a is not None and len(a) == 1:
                v = a[0][0]
                return [[ge(v, 1)], [le(v, -1)]], [[ge(v, 0), le(v, 0)]]
        return [[]], [[]]

    def assume(self, st, conj):
        """apply a conjunction to a copy of st; None if trivially infeasible"""
        s = st.copy()
        added = []
        for c in conj:
            if isinstance(c, tuple) and c[0] == "null":
                _, v, val = c
                cur = s.null.get(v)
                if cur is not None and cur != val:
                    return None
                s.null[v] = val
            else:
                if c.is_const():
                    if c.c < 0:
                        return None
                    continue
                if c not in s.G:
                    s.G.append(c)
                    added.append(c)
        # prune branches whose new constraints contradict what is already known (cone of influence only)
        for c in added:
            if _infeasible(cone(s.G, c) + [c]):
                return None
        return s

    # ------------------------------------------------------------ statements
    def dedupe(self, states):
        seen = {}
        for s in states:
            k = s.key()
            if k not in seen:
                seen[k] = s
        out = list(seen.values())
        if len(out) > MAX_STATES:
            raise AnalysisError("state explosion in %s (%d states)" % (self.fi.qual, len(out)))
        return out

    def block(self, stmts, states):
        for s in stmts:
            if not states:
                break
            states = self.stmt(s, states)
        return states

    def record(self, node, states):
        self.nodes[id(node)] = node
        self.at.setdefault(id(node), []).extend(states)

    def bind(self, st, name, value_expr, lineno):
        """st: state (mutated).  returns list of states (forks for alternatives)"""
        alts = None
        if value_expr is not None and self.intlike(st, value_expr):
            alts = self.lin_alts(st, value_expr)
        if alts is None:
            st.env.pop(name, None)
            prev_null = dict(st.null)
            self.bind_tensor(st, name, value_expr, lineno)
            if isinstance(value_expr, ast.Constant):
                st.null[name] = "none" if value_expr.value is None else "notnone"
            elif isinstance(value_expr, (ast.List, ast.Tuple, ast.Dict, ast.ListComp, ast.BinOp, ast.JoinedStr, ast.Compare)):
                st.null[name] = "notnone"
            elif isinstance(value_expr, ast.Call) and dotted(value_expr.func) in self.null_preserving and len(value_expr.args) == 1 \
                    and isinstance(value_expr.args[0], ast.Name) and value_expr.args[0].id in prev_null:
                st.null[name] = prev_null[value_expr.args[0].id]
            elif isinstance(value_expr, ast.Call) and (dotted(value_expr.func) or "").split(".")[0] in ("torch", "numpy"):
                st.null[name] = "notnone"
            else:
                st.null.pop(name, None)
            return [st]
        out = []
        for l, cons in alts:
            s = st.copy() if len(alts) > 1 else st
            ok = True
            for c in cons:
                if c.is_const():
                    if c.c < 0:
                        ok = False
                    continue
                if c not in s.G:
                    s.G.append(c)
            if not ok:
                continue
            if len(alts) > 1 and any(_infeasible(cone(s.G, c) + [c]) for c in cons if not c.is_const()):
                continue
            s.env[name] = l
            s.null[name] = "notnone"
            s.sver[name] = "%s@%d" % (name, lineno)
            out.append(s)
        return out

    def is_int_var(self, st, name):
        return name in st.env or name in self.int_params

    def intlike(self, st, e):
        if isinstance(e, ast.Constant):
            return isinstance(e.value, int) and not isinstance(e.value, bool)
        if isinstance(e, ast.Name):
            return self.is_int_var(st, e.id)
        if isinstance(e, ast.UnaryOp) and isinstance(e.op, (ast.USub, ast.UAdd)):
            return self.intlike(st, e.operand)
        if isinstance(e, ast.BinOp) and isinstance(e.op, (ast.Add, ast.Sub, ast.Mult, ast.FloorDiv, ast.Mod)):
            return self.intlike(st, e.left) and self.intlike(st, e.right)
        if isinstance(e, ast.IfExp):
            return self.intlike(st, e.body) and self.intlike(st, e.orelse)
        if isinstance(e, ast.Subscript) and isinstance(e.value, ast.Attribute) and e.value.attr == "shape":
            return True
        if isinstance(e, ast.Subscript) and isinstance(e.value, ast.Name) and e.value.id in self.int_arrays:
            return True
        if isinstance(e, ast.Call):
            d = dotted(e.func)
            if d in INT_CASTS or d == "len":
                return True
            if d in ("max", "min", "abs") and e.args:
                return all(self.intlike(st, a) for a in e.args)
            if isinstance(e.func, ast.Attribute) and e.func.attr in ("item", "argmin", "argmax") and not e.args:
                return True
        return False

    def bind_tensor(self, st, name, e, lineno):
        """name := tensor-valued (or unknown) expression; maintain shape versions and extent equalities"""
        new = "%s@%d" % (name, lineno)
        base = self.shape_source(st, e)
        if base is not None:
            st.sver[name] = st.sver.get(base, base)
            if base in st.rank:
                st.rank[name] = st.rank[base]
            return
        st.sver[name] = new
        st.rank.pop(name, None)
        if e is None:
            return
        r = self.rank_of(st, e)
        if r is not None:
            st.rank[name] = r
        ext = self.extent_last(st, e)
        if ext is not None:
            a = Lin.atom("%s.shape[-1]" % new)
            st.add(ge(a, ext), le(a, ext))

    def shape_source(self, st, e):
        """if e has the same shape as an existing variable return that variable"""
        if isinstance(e, ast.Name):
            return e.id
        if isinstance(e, ast.Call):
            d = dotted(e.func)
            if d in SHAPE_PRESERVING_FUNCS and e.args:
                return self.shape_source(st, e.args[0])
            if isinstance(e.func, ast.Attribute) and e.func.attr in SHAPE_PRESERVING_METHODS:
                if e.func.attr == "flip" or True:
                    return self.shape_source(st, e.func.value)
        return None

    def rank_of(self, st, e):
        if isinstance(e, ast.Name):
            return st.rank.get(e.id)
        if isinstance(e, ast.Call):
            d = dotted(e.func)
            if d in ("torch.cat", "torch.concatenate", "numpy.concatenate") and e.args and \
                    isinstance(e.args[0], (ast.List, ast.Tuple)) and e.args[0].elts:
                return self.rank_of(st, e.args[0].elts[0])
            src = self.shape_source(st, e)
            if src is not None:
                return st.rank.get(src)
        if isinstance(e, ast.Subscript):
            r = self.rank_of(st, e.value)
            if r is None:
                return None
            idx = e.slice.elts if isinstance(e.slice, ast.Tuple) else [e.slice]
            if any(isinstance(i, ast.Constant) and i.value is Ellipsis for i in idx):
                return None
            drop = sum(1 for i in idx if not isinstance(i, ast.Slice) and self.lin_alts(st, i) is not None
                       and not isinstance(i, (ast.List, ast.Tuple)))
            add = sum(1 for i in idx if isinstance(i, ast.Constant) and i.value is None)
            return r - drop + add
        return None

    def slice_bounds(self, st, sl, E):
        """for a Slice on an axis of extent E: (lo, hi) linear forms under the in-range assumption"""
        def bound(b, default):
            if b is None:
                return default
            if isinstance(b, ast.UnaryOp) and isinstance(b.op, ast.USub):
                v = self.lin(st, b.operand)
                return None if v is None else E - v
            v = self.lin(st, b)
            if v is None:
                return None
            if v.is_const():
                return E + v.c if v.c < 0 else v
            # symbolic bound: a value that is provably <= -1 on this path is a from-the-end offset
            if entails(st.G, (-v) - 1):
                return E + v
            return v
        if sl.step is not None:
            return None
        lo = bound(sl.lower, Lin(0))
        hi = bound(sl.upper, E)
        if lo is None or hi is None:
            return None
        return lo, hi

    def extent_last(self, st, e):
        """symbolic extent of the last axis of a tensor expression (in-range slices assumed)"""
        if isinstance(e, ast.Name):
            return Lin.atom(self.shape_atom(st, e.id, -1))
        if isinstance(e, ast.Call):
            d = dotted(e.func)
            src = self.shape_source(st, e)
            if src is not None:
                return Lin.atom(self.shape_atom(st, src, -1))
            if d in ("torch.cat", "torch.concatenate", "numpy.concatenate") and e.args and \
                    isinstance(e.args[0], (ast.List, ast.Tuple)):
                dim = None
                for kw in e.keywords:
                    if kw.arg in ("dim", "axis"):
                        dim = const_value(kw.value)
                if len(e.args) > 1:
                    dim = const_value(e.args[1])
                parts = [self.extent_last(st, x) for x in e.args[0].elts]
                if any(p is None for p in parts):
                    return None
                if dim == -1:
                    tot = Lin(0)
                    for p in parts:
                        tot = tot + p
                    return tot
                if dim is None or isinstance(dim, int):
                    r = self.rank_of(st, e.args[0].elts[0])
                    if r is not None and dim is not None and dim == r - 1:
                        tot = Lin(0)
                        for p in parts:
                            tot = tot + p
                        return tot
                    if dim in (None, 0) and (r is None or r > 1):
                        return parts[0]
                return None
            if isinstance(e.func, ast.Attribute) and e.func.attr in ("unsqueeze",) and e.args:
                k = const_value(e.args[0])
                if k == 0:
                    return self.extent_last(st, e.func.value)
            if isinstance(e.func, ast.Attribute) and e.func.attr == "repeat" and e.args:
                k = const_value(e.args[-1])
                if k == 1:
                    return self.extent_last(st, e.func.value)
            return None
        if isinstance(e, ast.Subscript):
            base = e.value
            idx = e.slice.elts if isinstance(e.slice, ast.Tuple) else [e.slice]
            r = self.rank_of(st, base)
            E = self.extent_last(st, base)
            if E is None:
                return None
            has_ellipsis = any(isinstance(i, ast.Constant) and i.value is Ellipsis for i in idx)
            last = idx[-1]
            if has_ellipsis:
                if isinstance(last, ast.Constant) and last.value is Ellipsis:
                    return E
                if isinstance(last, ast.Slice):
                    b = self.slice_bounds(st, last, E)
                    return None if b is None else b[1] - b[0]
                return None
            if r is None:
                return None
            if len(idx) < r:
                return E
            if len(idx) == r and isinstance(last, ast.Slice):
                b = self.slice_bounds(st, last, E)
                return None if b is None else b[1] - b[0]
            return None
        return None

    def stmt(self, s, states):
        self.record(s, states)
        out = self._stmt(s, states)
        out = self.dedupe(out)
        self.after[id(s)] = out
        return out

    def _stmt(self, s, states):
        if isinstance(s, ast.Assign):
            out = []
            for st in states:
                st = st.copy()
                cur = [st]
                for tgt in s.targets:
                    nxt = []
                    for c in cur:
                        nxt.extend(self.assign_target(c, tgt, s.value, s.lineno))
                    cur = nxt
                out.extend(cur)
            return out
        if isinstance(s, ast.AugAssign):
            out = []
            for st in states:
                st = st.copy()
                if isinstance(s.target, ast.Name) and self.is_int_var(st, s.target.id):
                    e = ast.BinOp(left=ast.Name(id=s.target.id, ctx=ast.Load()), op=s.op, right=s.value)
                    ast.copy_location(e, s)
                    ast.fix_missing_locations(e)
                    if self.intlike(st, e):
                        out.extend(self.bind(st, s.target.id, e, s.lineno))
                    else:
                        self.havoc(st, {s.target.id}, s.lineno)
                        st.env[s.target.id] = Lin.atom(st.sver[s.target.id])
                        out.append(st)
                else:
                    # in-place tensor arithmetic keeps the shape
                    out.append(st)
            return out
        if isinstance(s, ast.AnnAssign):
            return states
        if isinstance(s, (ast.Expr, ast.Pass, ast.Import, ast.ImportFrom, ast.Global, ast.Assert,
                          ast.Delete, ast.Nonlocal)):
            return states
        if isinstance(s, ast.Return):
            for st in states:
                self.returns.append((s, st))
            return []
        if isinstance(s, ast.Raise):
            for st in states:
                self.raises.append((s, st))
            return []
        if isinstance(s, (ast.Break, ast.Continue)):
            return []
        if isinstance(s, ast.If):
            out = []
            for st in states:
                t, f = self.cond(st, s.test)
                for conj in t:
                    ns = self.assume(st, conj)
                    if ns is not None:
                        ns.trace = ns.trace + (("T", s.lineno),)
                        out.extend(self.block(s.body, [ns]))
                for conj in f:
                    ns = self.assume(st, conj)
                    if ns is not None:
                        ns.trace = ns.trace + (("F", s.lineno),)
                        out.extend(self.block(s.orelse, [ns]) if s.orelse else [ns])
            return out
        if isinstance(s, (ast.For, ast.While)):
            return self.loop(s, states)
        if isinstance(s, ast.With):
            out = []
            for st in states:
                st = st.copy()
                for item in s.items:
                    if item.optional_vars is not None and isinstance(item.optional_vars, ast.Name):
                        self.bind_tensor(st, item.optional_vars.id, None, s.lineno)
                out.append(st)
            return self.block(s.body, out)
        if isinstance(s, ast.Try):
            body_out = self.block(s.body, [st.copy() for st in states])
            # handlers start from the state before the try with everything assigned in the body havocked
            hout = []
            if s.handlers:
                names = assigned_names(s.body)
                for h in s.handlers:
                    hs = []
                    for st in states:
                        st = st.copy()
                        self.havoc(st, names, s.lineno)
                        if h.name:
                            self.havoc(st, {h.name}, h.lineno)
                        hs.append(st)
                    hout.extend(self.block(h.body, hs))
            if s.orelse:
                body_out = self.block(s.orelse, body_out)
            res = body_out + hout
            if s.finalbody:
                res = self.block(s.finalbody, res)
            return res
        if isinstance(s, (ast.FunctionDef, ast.ClassDef)):
            return states
        raise AnalysisError("%s: unsupported statement kind %s at line %d" % (
            self.fi.qual, type(s).__name__, s.lineno))

    def havoc(self, st, names, lineno):
        for n in names:
            st.env.pop(n, None)
            st.sver[n] = "%s~%d" % (n, lineno)
            st.null.pop(n, None)
            st.rank.pop(n, None)

    def assign_target(self, st, tgt, value, lineno):
        if isinstance(tgt, ast.Name):
            return self.bind(st, tgt.id, value, lineno)
        if isinstance(tgt, (ast.Tuple, ast.List)):
            if isinstance(value, (ast.Tuple, ast.List)) and len(value.elts) == len(tgt.elts):
                cur = [st]
                # simultaneous assignment: evaluate all rhs first
                vals = []
                for v in value.elts:
                    vals.append(v)
                # conservative: if any target name is used in a later rhs, havoc instead
                tn = set()
                for t in tgt.elts:
                    tn |= {n.id for n in ast.walk(t) if isinstance(n, ast.Name)}
                used = set()
                for v in vals:
                    used |= {n.id for n in ast.walk(v) if isinstance(n, ast.Name)}
                if tn & used:
                    pre = st.copy()
                    alts = [self.lin_alts(pre, v) for v in vals]
                    cur = [st]
                    for t, a in zip(tgt.elts, alts):
                        nxt = []
                        for c in cur:
                            if isinstance(t, ast.Name) and a is not None and len(a) == 1:
                                c.add(*a[0][1])
                                c.env[t.id] = a[0][0]
                                c.sver[t.id] = "%s@%d" % (t.id, lineno)
                                c.null[t.id] = "notnone"
                                nxt.append(c)
                            else:
                                self.havoc(c, {n.id for n in ast.walk(t) if isinstance(n, ast.Name)}, lineno)
                                nxt.append(c)
                        cur = nxt
                    return cur
                for t, v in zip(tgt.elts, vals):
                    nxt = []
                    for c in cur:
                        nxt.extend(self.assign_target(c, t, v, lineno))
                    cur = nxt
                return cur
            # unpacking of a call etc.
            names = {n.id for n in ast.walk(tgt) if isinstance(n, ast.Name) and isinstance(n.ctx, ast.Store)}
            self.havoc(st, names, lineno)
            # `n, l = X.shape`
            if isinstance(value, ast.Attribute) and value.attr == "shape" and isinstance(value.value, ast.Name):
                base = value.value.id
                st.rank.setdefault(base, len(tgt.elts))
                for k, t in enumerate(tgt.elts):
                    if isinstance(t, ast.Name):
                        a = Lin.atom(self.shape_atom(st, base, k))
                        st.add(ge(a, 0))
                        st.env[t.id] = a
            return [st]
        # subscript / attribute store: no effect on tracked scalars
        return [st]

    def loop(self, s, states):
        body_names = assigned_names(s.body)
        if isinstance(s, ast.For):
            body_names |= {n.id for n in ast.walk(s.target) if isinstance(n, ast.Name)}
        out_states = []
        mono = self._monotone_vars(s)
        for st in states:
            entry = st.copy()
            pre_vals = {v: st.env[v] for v in mono if v in st.env}
            self.havoc(entry, body_names, s.lineno)
            for v, pv in pre_vals.items():
                a = Lin.atom(entry.sver[v])
                entry.env[v] = a
                entry.add(ge(a, pv) if mono[v] > 0 else le(a, pv))
            entry.trace = entry.trace + (("L", s.lineno),)
            if isinstance(s, ast.For):
                self.bind_loop_target(entry, s)
                self.block(s.body, [entry])
            else:
                t, f = self.cond(entry, s.test)
                for conj in t:
                    ns = self.assume(entry, conj)
                    if ns is not None:
                        self.block(s.body, [ns])
            post = st.copy()
            self.havoc(post, body_names, s.lineno)
            for v, pv in pre_vals.items():
                a = Lin.atom(post.sver[v])
                post.env[v] = a
                post.add(ge(a, pv) if mono[v] > 0 else le(a, pv))
            # a `while True` loop without break never completes normally
            if isinstance(s, ast.While) and isinstance(s.test, ast.Constant) and s.test.value is True \
                    and not self._has_break(s):
                continue
            posts = [post]
            if s.orelse:
                posts = self.block(s.orelse, posts) + ([post.copy()] if self._has_break(s) else [])
            out_states.extend(posts)
        return out_states

    def _monotone_vars(self, loop):
        """variables whose only modifications inside the loop are `v += c` (c >= 0 const) -> +1, or `v -= c` -> -1"""
        mods = {}
        for n in (x for b in loop.body for x in ast.walk(b)):
            if isinstance(n, ast.AugAssign) and isinstance(n.target, ast.Name):
                c = const_value(n.value)
                if isinstance(n.op, (ast.Add, ast.Sub)) and isinstance(c, int) and c >= 0:
                    sign = 1 if isinstance(n.op, ast.Add) else -1
                    mods.setdefault(n.target.id, set()).add(sign)
                else:
                    mods.setdefault(n.target.id, set()).add(0)
            elif isinstance(n, ast.Assign):
                for t in n.targets:
                    for x in ast.walk(t):
                        if isinstance(x, ast.Name) and isinstance(x.ctx, ast.Store):
                            mods.setdefault(x.id, set()).add(0)
            elif isinstance(n, (ast.For, ast.comprehension)):
                for x in ast.walk(n.target):
                    if isinstance(x, ast.Name):
                        mods.setdefault(x.id, set()).add(0)
        return {v: next(iter(sg)) for v, sg in mods.items() if len(sg) == 1 and 0 not in sg}

    def _has_break(self, loop):
        def walk(stmts):
            for x in stmts:
                if isinstance(x, ast.Break):
                    return True
                if isinstance(x, (ast.For, ast.While)):
                    if walk(x.orelse):
                        return True
                    continue
                for f in ("body", "orelse", "finalbody"):
                    if walk(getattr(x, f, []) or []):
                        return True
                for h in getattr(x, "handlers", []) or []:
                    if walk(h.body):
                        return True
            return False
        return walk(loop.body)

    def bind_loop_target(self, st, s):
        it = s.iter
        tgt = s.target
        # unwrap tqdm(...)/trange
        if isinstance(it, ast.Call) and dotted(it.func) in ("tqdm", "tqdm.tqdm") and it.args:
            it = it.args[0]
        # reversed(range(..)) / list(range(..)) visit the same values as range(..)
        while isinstance(it, ast.Call) and dotted(it.func) in ("reversed", "list", "iter") and len(it.args) == 1 and isinstance(it.args[0], ast.Call) \
                and dotted(it.args[0].func) in ("range", "trange", "numba.prange", "prange", "reversed", "list"):
            it = it.args[0]
        enum_idx = None
        if isinstance(it, ast.Call) and dotted(it.func) == "enumerate" and it.args and \
                isinstance(tgt, ast.Tuple) and len(tgt.elts) == 2:
            enum_idx = tgt.elts[0]
            if isinstance(enum_idx, ast.Name):
                a = Lin.atom(st.sver[enum_idx.id])
                st.env[enum_idx.id] = a
                st.add(ge(a, 0))
                inner = it.args[0]
                n = ast.Call(func=ast.Name(id="len", ctx=ast.Load()), args=[inner], keywords=[])
                ln = self.lin(st, n) if isinstance(inner, ast.Name) else None
                if ln is not None:
                    st.add(lt(a, ln))
            return
        if isinstance(it, ast.Call) and dotted(it.func) in ("range", "trange", "numba.prange", "prange", "tqdm.trange") \
                and isinstance(tgt, ast.Name):
            args = it.args
            a = Lin.atom(st.sver[tgt.id])
            st.env[tgt.id] = a
            lo = Lin(0)
            hi = None
            step = 1
            his, los = [], []
            if len(args) == 1:
                his = self._bound_list(st, args[0], "min", s)
                hi = his[0] if len(his) == 1 else None
            elif len(args) >= 2:
                los = self._bound_list(st, args[0], "max", s)
                his = self._bound_list(st, args[1], "min", s)
                lo = los[0] if len(los) == 1 else None
                hi = his[0] if len(his) == 1 else None
                if len(args) == 3:
                    step = const_value(args[2])
            if isinstance(step, int) and step > 0:
                for l_ in (los or ([lo] if lo is not None else [])):
                    st.add(ge(a, l_))
                for h_ in his:
                    st.add(lt(a, h_))
            elif isinstance(step, int) and step < 0:
                if lo is not None:
                    st.add(le(a, lo))
                if hi is not None:
                    st.add(gt(a, hi))
            else:
                # symbolic step (assumed positive only if provably so) : only lower/upper bounds when step lin >= 1
                if len(args) == 3:
                    sl = self.lin(st, args[2])
                    if sl is not None and entails(st.G, sl - 1):
                        if lo is not None:
                            st.add(ge(a, lo))
                        if hi is not None:
                            st.add(lt(a, hi))
            return
        # an index-generating construct the engine cannot read (sorted(range..), zip of ranges, itertools.product, arange, argsort ...):
        # the loop variables then look unconstrained although they are not - unlike rows of data, which really are arbitrary
        if isinstance(it, ast.Call) and (dotted(it.func) or "").split(".")[-1] in ("reversed", "sorted", "zip", "product", "arange", "argsort",
                                                                                   "permutations", "combinations", "nonzero", "where", "flatnonzero"):
            self._mark_free_targets(st, s)

    def _mark_free_targets(self, st, s):
        for x in ast.walk(s.target):
            if isinstance(x, ast.Name) and x.id in st.sver:
                self.free_atoms.add(st.sver[x.id])

    def _bound_list(self, st, e, combiner, loop):
        """loop bound as a conjunction: range(min(a, b)) gives v < a and v < b (dually max for lower bounds);
        a bound that needs a case split is recorded as imprecise"""
        if isinstance(e, ast.Call) and dotted(e.func) == combiner and len(e.args) == 2 and not e.keywords:
            out = []
            for x in e.args:
                out += self._bound_list(st, x, combiner, loop)
            return out
        alts = self.lin_alts(st, e)
        if alts is not None and len(alts) == 1:
            st.add(*alts[0][1])
            return [alts[0][0]]
        self.imprecise_loops.add(id(loop))
        return []

    # ------------------------------------------------------------ queries
    def states_at(self, node):
        return self.at.get(id(node), [])
