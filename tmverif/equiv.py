"""Equivalence of a (canonicalised) function with its confirmed reference version, by symbolic summaries.

Purpose: a maintainer's refactoring that the rule tables do not recognise must not end as an alarm, and ideally not as an
ANALYSIS-ERROR either.  If every function of the modules a property consults is either syntactically identical to the reference
(after tmverif.canon) or has the SAME SYMBOLIC SUMMARY as its reference version, the program computes what the reference computes, and
the verdict the rules reach on the reference carries over (core.run_property re-runs the rules on the reference tree to obtain it).

Summary of a function = for every path through its branch decisions: (decisions taken, ordered trace of effects, returned term).
  * values are canonical terms: arithmetic (+ - * /) in rational normal form (tmverif.terms.Rat), every other operator / call /
    subscript / attribute an uninterpreted symbol over the canonical terms of its operands (so equal terms denote equal values
    whatever the symbols mean), comprehension variables numbered positionally;
  * a variable read yields the term it was bound to - spelling, temporaries, `x += e` vs `x = x + e` (names only) and the split of
    an expression over several statements disappear;
  * effects (subscript / attribute stores, augmented assignment, calls that are not on the pure list, raise, return, break, continue)
    are recorded in program order with the terms of their operands, and each effect starts a new EPOCH: a term that was evaluated in
    an earlier epoch and is read again is wrapped as rd(term)@epoch, and every name / operation is tagged with the epoch it is
    evaluated in, so moving a read across a possible mutation changes the summary (no aliasing assumptions needed);
  * `if` / conditional expressions fork the path (a decision on a term already decided on this path is reused, so two tests of the
    same flag and one merged test give the same path set); loops, try blocks and their bodies are summarised recursively as nodes
    (entry terms of the variables they assign, path set of the body with loop-carried variables as fresh symbols), after which the
    variables they assign are fresh symbols tied to that node.
Equal summaries => equal behaviour for every input (congruence: same symbols applied to same terms in the same effect order).
Unequal summaries mean nothing (the check is incomplete by design) - then the rule verdicts stand as they are.
"""
import ast, time, os
from fractions import Fraction
from .terms import Rat, canon as _canon


def canon(r):
    """canonical text; a bare atom prints as itself"""
    if r.is_poly() and len(r.n) == 1:
        (m, c), = r.n.items()
        if c == 1 and len(m) == 1 and m[0][1] == 1:
            return m[0][0]
    return _canon(r)

PURE_BUILTINS = {"len", "int", "float", "min", "max", "abs", "range", "tuple", "list", "dict", "set", "isinstance", "sorted", "zip",
                 "enumerate", "sum", "str", "bool", "type", "repr", "any", "all", "getattr", "hasattr", "slice", "reversed", "round",
                 "ValueError", "RuntimeError", "TypeError", "IndexError", "Exception", "ord", "chr", "bytearray", "bytes", "divmod", "map", "iter"}
PURE_PREFIXES = ("torch.", "numpy.", "math.", "np.", "F.", "itertools.", "collections.", "pandas.", "numba.uint", "numba.int")
IMPURE_PARTS = ("dropout", "bernoulli", "normal", "uniform", "poisson", "random", "seed", "manual_seed", "rand", "randn", "randint", "randperm", "multinomial", "shuffle", "permutation", "choice",
                "set_num_threads", "save", "load", "set_", "backward", "open", "print")
PURE_METHODS = {"sum", "max", "min", "mean", "argmax", "argmin", "item", "numpy", "any", "all", "abs", "size", "dim", "long", "float", "bool",
                "int", "tolist", "flatten", "reshape", "view", "unsqueeze", "squeeze", "astype", "type", "nansum", "cumsum", "clone", "detach",
                "to", "cpu", "double", "contiguous", "permute", "transpose", "repeat", "repeat_interleave", "expand", "expand_as", "chunk",
                "split", "flip", "argsort", "topk", "unique", "nonzero", "format", "join", "startswith", "endswith", "strip", "lower", "upper",
                "get", "keys", "values", "items", "index", "count", "copy", "dot", "T", "round", "floor", "ceil", "sqrt", "exp", "log", "isnan",
                "ravel", "cumprod", "prod", "std", "var", "median", "quantile", "encode", "decode", "replace", "where", "masked_fill", "gather",
                "narrow", "unfold", "roll", "tile", "swapaxes", "moveaxis", "half", "short", "byte", "char", "eq", "ne", "lt", "le", "gt", "ge",
                "shape", "numel", "element_size", "is_contiguous", "new_zeros", "new_ones", "new_empty", "new_full", "type_as", "view_as",
                "reshape_as", "itertuples", "iloc", "isin", "searchsorted", "clip", "clamp", "reciprocal", "neg", "sign", "logical_not",
                "logical_and", "logical_or", "bitwise_not", "cummax", "cummin", "diff", "fetch", "stats", "chroms"}
MAX_PATHS = 400


class TooManyPaths(Exception):
    pass


class NeedDecision(Exception):
    pass


def _is_pure_call(e):
    f = e.func
    if isinstance(f, ast.Name):
        return f.id in PURE_BUILTINS
    if isinstance(f, ast.Attribute):
        try:
            d = ast.unparse(f)
        except Exception:
            return False
        if f.attr.endswith("_") and not f.attr.startswith("__"):
            return False
        if d.startswith(PURE_PREFIXES):
            return not any(p == part or part.startswith("rand") for part in d.split(".") for p in IMPURE_PARTS)
        return f.attr in PURE_METHODS
    return False


class Path:
    """one execution of a statement list under a decision oracle"""

    def __init__(self, decisions, scope):
        self.decisions = decisions      # list of bools consumed in order for NEW conditions
        self.used = 0
        self.decided = {}               # canonical condition text -> bool
        self.trace = []
        self.epoch = 0
        self.env = {}                   # name -> (Rat, epoch)
        self.nodes = 0
        self.scope = scope              # prefix for fresh symbols
        self.cv = 0
        self.done = None                # ("return", term) / ("raise", term) / ("break",) / ("continue",)
        self.num_names = set()
        self.objid = {}                 # name -> identity of the object it is bound to (binding event; aliases share it)
        self.nbind = {}                 # name -> number of binding events on this path

    # ---- decisions
    def decide(self, text):
        if text in self.decided:
            return self.decided[text]
        neg = None
        if text.startswith("not(") and text.endswith(")"):
            neg = text[4:-1]
        if neg is not None and neg in self.decided:
            return not self.decided[neg]
        if self.used >= len(self.decisions):
            raise NeedDecision()
        v = self.decisions[self.used]
        self.used += 1
        self.decided[text] = v
        return v

    def truth(self, test):
        """branch decision with python's short-circuit evaluation: decisions are taken on atomic conditions only, so `if a or b: T`
        and `if a: T` followed by `if b: T`, or a merged / nested pair of tests, explore the same decision sets"""
        if isinstance(test, ast.BoolOp):
            if isinstance(test.op, ast.Or):
                for v in test.values:
                    if self.truth(v):
                        return True
                return False
            for v in test.values:
                if not self.truth(v):
                    return False
            return True
        if isinstance(test, ast.UnaryOp) and isinstance(test.op, ast.Not):
            return not self.truth(test.operand)
        if isinstance(test, ast.Constant):
            return bool(test.value)
        if isinstance(test, ast.Compare) and len(test.ops) == 1 and isinstance(test.ops[0], (ast.NotEq, ast.IsNot, ast.NotIn)):
            pos = {ast.NotEq: ast.Eq, ast.IsNot: ast.Is, ast.NotIn: ast.In}[type(test.ops[0])]
            return not self.truth(ast.copy_location(ast.Compare(left=test.left, ops=[pos()], comparators=test.comparators), test))
        if isinstance(test, ast.Call) and isinstance(test.func, ast.Name) and test.func.id == "isinstance" and len(test.args) == 2:
            if self.text(test.args[1]) == "Tuple()":
                return False            # isinstance(x, ()) is False for every x
        return self.decide(self.text(test))

    def oid(self, name):
        return self.objid.get(name, "in:%s" % name)

    def root_oid(self, e):
        """identity tag of the object a mutation goes through: the root name of a subscript / attribute chain"""
        b = e
        while isinstance(b, (ast.Subscript, ast.Attribute)):
            b = b.value
        if isinstance(b, ast.Name):
            return self.oid(b.id)
        return "expr"

    def new_binding(self, name, value=None):
        if isinstance(value, ast.Name):
            self.objid[name] = self.oid(value.id)          # alias: same object
        else:
            k = self.nbind.get(name, 0)
            self.nbind[name] = k + 1
            self.objid[name] = "%s%s#%d" % (self.scope if self.scope != "n" else "", name, k)

    def effect(self, *item):
        self.trace.append(("e%d" % self.epoch,) + item)
        self.epoch += 1

    # ---- terms
    def atom(self, text):
        return Rat.atom(text)

    def read(self, name):
        if name in self.env:
            t, ep = self.env[name]
            if ep == self.epoch:
                return t
            return self.atom("rd(%s|%s)@%d" % (canon(t), self.oid(name), self.epoch))
        if name in _CUR_LOCALS[0]:
            # a local of the function that no statement on this path has bound yet: python raises UnboundLocalError here - an observable
            # event even when the value would only have fed a pure computation nobody uses
            self.trace.append(("unbound-read", name, self.epoch))
            return self.atom("unbound(%s)@%d" % (name, self.epoch))
        return self.atom("%s@%d" % (name, self.epoch))

    def op(self, text):
        return self.atom("%s@%d" % (text, self.epoch))

    def text(self, e):
        return canon(self.ev(e))

    def ev(self, e):
        if e is None:
            return self.atom("None")
        if isinstance(e, ast.Constant):
            if isinstance(e.value, (int, float)) and not isinstance(e.value, bool):
                try:
                    return Rat.const(Fraction(str(e.value)) if isinstance(e.value, float) else e.value)
                except (ValueError, ZeroDivisionError):
                    return self.atom(repr(e.value))
            return self.atom(repr(e.value))
        if isinstance(e, ast.Name):
            return self.read(e.id)
        if isinstance(e, ast.UnaryOp):
            a = self.ev(e.operand)
            if isinstance(e.op, ast.USub):
                return -a
            if isinstance(e.op, ast.UAdd):
                return a
            if isinstance(e.op, ast.Not):
                t = canon(a)
                return self.atom(t[4:-1] if t.startswith("not(") and t.endswith(")") else "not(%s)" % t)
            return self.op("%s(%s)" % (type(e.op).__name__, canon(a)))
        if isinstance(e, ast.BinOp):
            a, b = self.ev(e.left), self.ev(e.right)
            # ring normal form only where the operands are evidently numbers / tensors: `+` and `*` on lists and strings are
            # neither commutative nor distributive, so everything else stays an ordered uninterpreted symbol
            if isinstance(e.op, ast.Add):
                if self.numeric(e):
                    return a + b
                return self.op("add(%s,%s)" % (canon(a), canon(b)))
            if isinstance(e.op, ast.Sub):
                return a - b
            if isinstance(e.op, ast.Mult):
                if self.numeric(e):
                    return a * b
                return self.op("mul(%s,%s)" % (canon(a), canon(b)))
            if isinstance(e.op, ast.Div):
                return a / b
            return self.op("%s(%s,%s)" % (type(e.op).__name__, canon(a), canon(b)))
        if isinstance(e, ast.BoolOp):
            return self.op("%s(%s)" % (type(e.op).__name__, ",".join(self.text(v) for v in e.values)))
        if isinstance(e, ast.Compare):
            parts = [self.text(e.left)]
            left = self.ev(e.left)
            out = []
            for o, c in zip(e.ops, e.comparators):
                right = self.ev(c)
                a, b, name = canon(left), canon(right), type(o).__name__
                if name in ("Gt", "GtE"):
                    a, b, name = b, a, {"Gt": "Lt", "GtE": "LtE"}[name]
                if name in ("Eq", "NotEq") and b < a:
                    a, b = b, a
                out.append("%s(%s,%s)" % (name, a, b))
                left = right
            return self.op(out[0] if len(out) == 1 else "And(%s)" % ",".join(out))
        if isinstance(e, ast.IfExp):
            return self.ev(e.body) if self.truth(e.test) else self.ev(e.orelse)
        if isinstance(e, ast.Subscript):
            return self.op("idx(%s)[%s]" % (self.text(e.value), self.slice_text(e.slice)))
        if isinstance(e, ast.Attribute):
            return self.op("%s.%s" % (self.text(e.value), e.attr))
        if isinstance(e, (ast.Tuple, ast.List, ast.Set)):
            return self.atom("%s(%s)" % (type(e).__name__, ",".join(self.text(x) for x in e.elts)))
        if isinstance(e, ast.Dict):
            return self.atom("Dict(%s)" % ",".join("%s:%s" % (self.text(k) if k is not None else "**", self.text(v)) for k, v in zip(e.keys, e.values)))
        if isinstance(e, ast.Starred):
            return self.atom("*%s" % self.text(e.value))
        if isinstance(e, ast.JoinedStr):
            return self.atom("fstr(%s)" % ",".join(self.text(v) for v in e.values))
        if isinstance(e, ast.FormattedValue):
            return self.atom("fmt(%s,%s)" % (self.text(e.value), self.text(e.format_spec) if e.format_spec else ""))
        if isinstance(e, ast.Slice):
            return self.atom(self.slice_text(e))
        if isinstance(e, ast.Call):
            return self.call(e)
        if isinstance(e, (ast.ListComp, ast.SetComp, ast.GeneratorExp, ast.DictComp)):
            return self.comp(e)
        if isinstance(e, ast.Lambda):
            saved = dict(self.env)
            for k, a in enumerate(e.args.args):
                self.env[a.arg] = (self.atom("lam%d_%d" % (self.cv, k)), self.epoch)
            self.cv += 1
            t = self.text(e.body)
            self.env = saved
            return self.op("lambda(%d;%s)" % (len(e.args.args), t))
        return self.op("?%s" % ast.dump(e))

    def numeric(self, e):
        """syntactic evidence that the value is a number or a tensor (never a list / tuple / string)"""
        if isinstance(e, ast.Constant):
            return isinstance(e.value, (int, float)) and not isinstance(e.value, bool)
        if isinstance(e, ast.Name):
            return e.id in self.num_names
        if isinstance(e, ast.UnaryOp) and isinstance(e.op, (ast.USub, ast.UAdd)):
            return True
        if isinstance(e, ast.BinOp):
            if isinstance(e.op, (ast.Sub, ast.Div, ast.FloorDiv, ast.Mod, ast.Pow, ast.MatMult)):
                return True
            if isinstance(e.op, ast.Add):
                return self.numeric(e.left) or self.numeric(e.right)
            if isinstance(e.op, ast.Mult):
                return self.numeric(e.left) and self.numeric(e.right)
            return False
        if isinstance(e, ast.Call):
            if isinstance(e.func, ast.Name) and e.func.id in ("len", "int", "float", "abs", "uint64", "round"):
                return True
            if isinstance(e.func, ast.Attribute) and e.func.attr in ("sum", "item", "argmax", "argmin", "numel", "dim", "size", "mean", "uint64", "int64",
                                                                   "floor", "ceil", "log2", "log", "sqrt", "exp"):
                return True
            return False
        if isinstance(e, ast.Subscript):
            return isinstance(e.value, ast.Attribute) and e.value.attr == "shape" and not isinstance(e.slice, ast.Slice)
        return False

    def slice_text(self, s):
        if isinstance(s, ast.Slice):
            return "%s:%s:%s" % tuple("" if x is None else self.text(x) for x in (s.lower, s.upper, s.step))
        if isinstance(s, ast.Tuple):
            return ",".join(self.slice_text(x) for x in s.elts)
        return self.text(s)

    def comp(self, e):
        saved = dict(self.env)
        parts = []
        for g in e.generators:
            it = self.text(g.iter)
            for n in ast.walk(g.target):
                if isinstance(n, ast.Name):
                    self.env[n.id] = (self.atom("cv%d" % self.cv), self.epoch)
                    self.cv += 1
            parts.append("for(%s in %s if %s)" % (self.text(g.target), it, ",".join(self.text(c) for c in g.ifs)))
        if isinstance(e, ast.DictComp):
            body = "%s:%s" % (self.text(e.key), self.text(e.value))
        else:
            body = self.text(e.elt)
        self.env = saved
        return self.op("%s(%s;%s)" % (type(e).__name__, body, ";".join(parts)))

    def call(self, e):
        fn = self.text(e.func) if not isinstance(e.func, ast.Attribute) else "%s.%s" % (self.text(e.func.value), e.func.attr)
        if isinstance(e.func, ast.Name) and e.func.id not in self.env:
            fn = e.func.id
        if isinstance(e.func, ast.Attribute) and isinstance(e.func.value, ast.Name) and e.func.value.id not in self.env:
            try:
                d = ast.unparse(e.func)
            except Exception:
                d = fn
            if d.startswith(PURE_PREFIXES):
                fn = d
        args = [self.text(a) for a in e.args]
        kws = sorted("%s=%s" % (k.arg if k.arg else "**", self.text(k.value)) for k in e.keywords)
        txt = "%s(%s|%s)" % (fn, ",".join(args), ",".join(kws))
        if _is_pure_call(e):
            return self.op(txt)
        k = len(self.trace)
        ids = [self.root_oid(e.func.value)] if isinstance(e.func, ast.Attribute) else []
        ids += [self.oid(a.id) for a in e.args if isinstance(a, ast.Name)]
        ids += [self.oid(kw.value.id) for kw in e.keywords if isinstance(kw.value, ast.Name)]
        self.effect("call", txt, tuple(ids))
        return self.atom("res#%d(%s)" % (k, txt))

    # ---- statements
    def bind(self, target, term, value=None):
        if isinstance(target, ast.Name):
            self.env[target.id] = (term, self.epoch)
            self.new_binding(target.id, value)
            if value is not None and self.numeric(value):
                self.num_names.add(target.id)
            else:
                self.num_names.discard(target.id)
        elif isinstance(target, (ast.Tuple, ast.List)):
            t = canon(term)
            for k, x in enumerate(target.elts):
                if isinstance(x, ast.Starred):
                    self.bind(x.value, self.atom("unpack*(%s,%d)" % (t, k)))
                else:
                    self.bind(x, self.atom("unpack(%s,%d)" % (t, k)))
        elif isinstance(target, ast.Subscript):
            self.effect("store", self.root_oid(target), self.text(target.value), self.slice_text(target.slice), canon(term))
        elif isinstance(target, ast.Attribute):
            self.effect("setattr", self.root_oid(target), self.text(target.value), target.attr, canon(term))
        else:
            self.effect("bind?", ast.dump(target), canon(term))

    def assigned(self, stmts):
        out = []
        for s in stmts:
            for n in ast.walk(s):
                if isinstance(n, ast.Name) and isinstance(n.ctx, (ast.Store, ast.Del)) and n.id not in out:
                    out.append(n.id)
        return out

    def new_nid(self):
        self.nodes += 1
        return "%s%d" % (self.scope, self.nodes)

    def sub(self, stmts, label, havoc, inherit=True, nid=None, dead=()):
        """path set of a nested body; loop-carried / assigned variables start as fresh symbols"""
        nid = nid or self.new_nid()
        entry = tuple((v, canon(self.read(v)) if v in self.env else "-") for v in havoc if v not in dead)
        base_env = dict(self.env)
        ids = dict(self.objid)
        for v in havoc:
            base_env[v] = (self.atom("lc(%s)#%s" % (v, nid)), self.epoch)
            ids[v] = "lc:%s#%s" % (v, nid)
        paths = explore(stmts, base_env, nid + ".", self.decided if inherit else None, self.epoch, ids, dead=dead)
        return (label, nid, entry, paths)

    def after(self, node, names):
        nid = node[1]
        for v in names:
            self.env[v] = (self.atom("after(%s)#%s" % (v, nid)), self.epoch)
            self.objid[v] = "after:%s#%s" % (v, nid)

    def run(self, stmts):
        for s in stmts:
            if self.done is not None:
                return
            self.stmt(s)

    def stmt(self, s):
        if isinstance(s, ast.Expr):
            if isinstance(s.value, ast.Constant):
                return
            t = self.text(s.value)
            if not isinstance(s.value, ast.Call):
                self.trace.append(("expr", t))
            return
        if isinstance(s, ast.Assign):
            v = self.ev(s.value)
            for tg in s.targets:
                self.bind(tg, v, s.value)
            return
        if isinstance(s, ast.AnnAssign):
            if s.value is not None:
                self.bind(s.target, self.ev(s.value))
            return
        if isinstance(s, ast.AugAssign):
            v = self.ev(s.value)
            if isinstance(s.target, ast.Name):
                cur = self.read(s.target.id)
                op = s.op
                tn = ast.Name(id=s.target.id, ctx=ast.Load())
                if isinstance(op, ast.Add) and (self.numeric(tn) or self.numeric(s.value)):
                    new = cur + v
                elif isinstance(op, ast.Sub):
                    new = cur - v
                    self.num_names.add(s.target.id)
                elif isinstance(op, ast.Mult) and self.numeric(tn) and self.numeric(s.value):
                    new = cur * v
                elif isinstance(op, ast.Div):
                    new = cur / v
                else:
                    new = self.op("%s(%s,%s)" % (type(op).__name__, canon(cur), canon(v)))
                # in place for mutable objects: other names may alias the object -> an effect (new epoch)
                self.effect("aug", s.target.id, self.oid(s.target.id), type(op).__name__, canon(v))
                self.env[s.target.id] = (new, self.epoch)
            else:
                self.effect("augstore", self.root_oid(s.target), self.text(s.target.value), self.slice_text(s.target.slice) if isinstance(s.target, ast.Subscript)
                            else s.target.attr, type(s.op).__name__, canon(v))
            return
        if isinstance(s, ast.Return):
            ids = tuple(self.oid(x.id) for x in ([s.value] if isinstance(s.value, ast.Name) else
                                                   (s.value.elts if isinstance(s.value, (ast.Tuple, ast.List)) else [])) if isinstance(x, ast.Name))
            self.done = ("return", self.text(s.value) if s.value is not None else "None", ids)
            return
        if isinstance(s, ast.Raise):
            self.done = ("raise", self.text(s.exc) if s.exc is not None else "", self.text(s.cause) if s.cause is not None else "")
            return
        if isinstance(s, ast.Break):
            self.done = ("break",)
            return
        if isinstance(s, ast.Continue):
            self.done = ("continue",)
            return
        if isinstance(s, ast.Pass):
            return
        if isinstance(s, ast.Assert):
            c = self.text(s.test)
            self.trace.append(("assert", c, self.text(s.msg) if s.msg is not None else ""))
            return
        if isinstance(s, ast.Delete):
            self.effect("del", ",".join(self.text(t) if not isinstance(t, ast.Name) else t.id for t in s.targets))
            for t in s.targets:
                if isinstance(t, ast.Name):
                    self.env.pop(t.id, None)
            return
        if isinstance(s, ast.If):
            self.run(s.body if self.truth(s.test) else s.orelse)
            return
        if isinstance(s, (ast.For, ast.While)):
            names = self.assigned([s])
            dead = dead_after_iteration(s, names)
            if isinstance(s, ast.For):
                it = self.text(s.iter)
                nid = self.new_nid()
                # the element of this loop's iterable: a symbol of its own for every loop node
                pre = [ast.Assign(targets=[s.target], value=ast.Name(id="__item__%s" % nid.replace(".", "_"), ctx=ast.Load()))]
                ast.fix_missing_locations(ast.Module(body=pre, type_ignores=[]))
                node = self.sub(pre + s.body, "for", names, inherit=False, nid=nid, dead=dead)
                node = node + (it,)
            else:
                guard = [ast.If(test=ast.UnaryOp(op=ast.Not(), operand=s.test), body=[ast.Break()], orelse=[])]
                ast.fix_missing_locations(ast.Module(body=guard, type_ignores=[]))
                node = self.sub(guard + s.body, "while", names, inherit=False, dead=dead)
            els = self.sub(s.orelse, "loop-else", self.assigned(s.orelse)) if s.orelse else None
            self.effect("loop", node, els)
            self.after(node, names)
            return
        if isinstance(s, ast.With):
            items = []
            for it in s.items:
                t = self.text(it.context_expr)
                items.append(t)
                if it.optional_vars is not None:
                    self.bind(it.optional_vars, self.atom("enter(%s)" % t))
            self.effect("with-enter", tuple(items))
            self.run(s.body)
            if self.done is None:
                self.effect("with-exit", tuple(items))
            return
        if isinstance(s, ast.Try):
            names = self.assigned([s])
            body = self.sub(s.body, "try", names)
            hs = tuple((self.text(h.type) if h.type is not None else "", h.name or "", self.sub(h.body, "except", names)) for h in s.handlers)
            oe = self.sub(s.orelse, "try-else", names) if s.orelse else None
            fin = self.sub(s.finalbody, "finally", names) if s.finalbody else None
            self.effect("try", body, hs, oe, fin)
            self.after(body, names)
            return
        if isinstance(s, (ast.FunctionDef, ast.AsyncFunctionDef, ast.ClassDef)):
            self.env[s.name] = (self.atom("def(%s)@%d" % (ast.dump(s), self.epoch)), self.epoch)
            return
        if isinstance(s, (ast.Import, ast.ImportFrom, ast.Global, ast.Nonlocal)):
            self.trace.append(("decl", ast.dump(s)))
            return
        self.effect("stmt?", ast.dump(s))


def _stringy(e):
    for n in ast.walk(e):
        if isinstance(n, ast.Constant) and isinstance(n.value, (str, bytes)):
            return True
        if isinstance(n, (ast.JoinedStr, ast.List, ast.Tuple, ast.ListComp)):
            return True
        if isinstance(n, ast.Call) and isinstance(n.func, ast.Name) and n.func.id in ("str", "list", "tuple", "repr"):
            return True
        if isinstance(n, ast.Call) and isinstance(n.func, ast.Attribute) and n.func.attr in ("format", "join", "tolist"):
            return True
    return False


_CUR_FUNC = [None]
_CUR_LOCALS = [frozenset()]
_DEADLINE = [None]          # wall-clock budget of one function summary (TMVERIF_EQUIV_BUDGET seconds, default 240): beyond it "too many paths"


def _mentions(node, v):
    return any(isinstance(n, ast.Name) and n.id == v for n in ast.walk(node))


def _def_before_use(block, v):
    """in every execution of `block`, no read of v sees a value from before the block: the first statement that mentions v is an
    unconditional plain assignment that does not read v; or ALL mentions of v sit in one compound statement whose header does not
    mention v and whose sub-blocks each satisfy the same condition"""
    ms = [st for st in block if _mentions(st, v)]
    if not ms:
        return True
    st = ms[0]
    if isinstance(st, ast.Assign) and len(st.targets) == 1 and \
            ((isinstance(st.targets[0], ast.Name) and st.targets[0].id == v) or
             (isinstance(st.targets[0], ast.Tuple) and all(isinstance(e, ast.Name) for e in st.targets[0].elts) and
              any(e.id == v for e in st.targets[0].elts))) and not _mentions(st.value, v):
        return True
    if len(ms) == 1 and isinstance(st, (ast.If, ast.For, ast.While, ast.With, ast.Try)):
        heads = []
        if isinstance(st, (ast.If, ast.While)):
            heads.append(st.test)
        elif isinstance(st, ast.For):
            heads += [st.iter, st.target]
        elif isinstance(st, ast.With):
            heads += [i.context_expr for i in st.items] + [i.optional_vars for i in st.items if i.optional_vars is not None]
        if any(_mentions(h, v) for h in heads):
            return False
        subs = [getattr(st, f) for f in ("body", "orelse", "finalbody") if getattr(st, f, None)]
        subs += [h.body for h in getattr(st, "handlers", []) or []]
        return all(_def_before_use(b, v) for b in subs)
    return False


_DEAD_MEMO = {}


def dead_after_iteration(loop, names):
    key = (id(_CUR_FUNC[0]), id(loop))
    if key not in _DEAD_MEMO:
        _DEAD_MEMO[key] = _dead_after_iteration(loop, names)
    return _DEAD_MEMO[key]


def _dead_after_iteration(loop, names):
    """names assigned in the loop whose value at the end of an iteration nobody can observe: not read anywhere outside the loop statement
    (nor by any nested scope), and in every iteration written - by an unconditional plain assignment at the top level of the body that
    does not read the name itself - before the body mentions the name in any other way"""
    func = _CUR_FUNC[0]
    if func is None:
        return set()
    inside = {id(n) for n in ast.walk(loop)}
    out = set()
    nested = set()
    for n in ast.walk(func):
        if isinstance(n, (ast.FunctionDef, ast.AsyncFunctionDef, ast.Lambda, ast.ClassDef, ast.ListComp, ast.SetComp, ast.DictComp, ast.GeneratorExp)) and n is not func:
            nested |= {x.id for x in ast.walk(n) if isinstance(x, ast.Name)}
    tnames = {x.id for x in ast.walk(loop.target) if isinstance(x, ast.Name)} if isinstance(loop, ast.For) else set()
    for v in names:
        if v in nested or v in tnames:
            continue
        if any(isinstance(n, ast.Name) and n.id == v and id(n) not in inside and isinstance(n.ctx, (ast.Load, ast.Del)) for n in ast.walk(func)):
            continue
        if any(isinstance(n, ast.Name) and n.id == v for part in ([loop.iter] if isinstance(loop, ast.For) else [loop.test]) for n in ast.walk(part)):
            continue
        if any(isinstance(n, ast.Name) and n.id == v for st in loop.orelse for n in ast.walk(st)):
            continue
        ok = _def_before_use(loop.body, v)
        if ok:
            out.add(v)
    return out


def explore(stmts, env, scope, inherited=None, epoch0=0, objid=None, dead=()):
    """all paths of a statement list -> sorted tuple of (decisions, trace, outcome, final bindings of assigned names)"""
    results = []
    work = [[]]
    budget = [0]
    while work:
        if _DEADLINE[0] is not None and time.time() > _DEADLINE[0]:
            raise TooManyPaths()
        dec = work.pop()
        p = Path(dec, scope)
        p.env = dict(env)
        p.epoch = epoch0
        if objid:
            p.objid = dict(objid)
        if inherited:
            p.decided = dict(inherited)
        try:
            p.run(stmts)
        except NeedDecision:
            work.append(dec + [True])
            work.append(dec + [False])
            budget[0] += 1
            if budget[0] > MAX_PATHS:
                raise TooManyPaths()
            continue
        own = tuple(sorted((k, v) for k, v in p.decided.items() if not inherited or k not in inherited))
        finals = []
        names = []
        for s in stmts:
            for n in ast.walk(s):
                if isinstance(n, ast.Name) and isinstance(n.ctx, ast.Store) and n.id not in names:
                    names.append(n.id)
        for v in sorted(names):
            if v in p.env and v not in dead:
                finals.append((v, canon(p.env[v][0])))
        results.append((own, tuple(p.trace), p.done, tuple(finals)))
        if len(results) > MAX_PATHS:
            raise TooManyPaths()
    return tuple(sorted(results, key=repr))


def summary(func):
    """canonical summary of a FunctionDef (after canonicalisation); raises TooManyPaths"""
    body = [s for s in func.body if not (isinstance(s, ast.Expr) and isinstance(s.value, ast.Constant))]
    from .canon import locals_of
    _CUR_FUNC[0] = func
    _CUR_LOCALS[0] = frozenset(locals_of(func))
    _DEADLINE[0] = time.time() + float(os.environ.get("TMVERIF_EQUIV_BUDGET", "240"))
    try:
        paths = explore(body, {}, "n")
    finally:
        _DEADLINE[0] = None
        _CUR_FUNC[0] = None
        _CUR_LOCALS[0] = frozenset()
        _DEAD_MEMO.clear()
    # the final bindings of locals are irrelevant at function level: keep decisions, trace, outcome
    return _drop_unobserved_ids(tuple((d, t, _observable_identity(t, o)) for d, t, o, _ in paths))


_ID_TOKEN = None


def _drop_unobserved_ids(summ):
    """identity tags of fresh local objects (`name#k`, `scope.name#k`) that occur exactly once in the whole summary identify an object
    nothing else ever refers to - it was created, named and handed over at that one place (`t = (a, b); xs.append(t)` vs
    `xs.append((a, b))`): the tag carries no information and is dropped"""
    import re
    global _ID_TOKEN
    if _ID_TOKEN is None:
        _ID_TOKEN = re.compile(r"(?<![\w#.:])((?:[A-Za-z_][\w]*\.)*(?:[A-Za-z_]\w*\.)?[A-Za-z_]\w*#\d+)(?![\w(])")
    blob = repr(summ)
    counts = {}
    for m in _ID_TOKEN.finditer(blob):
        counts[m.group(1)] = counts.get(m.group(1), 0) + 1
    full = re.compile(r"^(?:[\w]+\.)*\w+#\d+$")

    idlike = re.compile(r"^(?:(?:[\w]+\.)*\w+#\d+|(?:in|lc|after):.*|expr)$")

    def walk(x):
        if isinstance(x, tuple):
            pure_ids = bool(x) and all(isinstance(e, str) and idlike.match(e) for e in x)
            out = []
            for e in x:
                if isinstance(e, str) and full.match(e) and counts.get(e, 0) <= 1:
                    if not pure_ids:
                        out.append("#fresh")      # position kept inside an effect record
                    continue                      # dropped from a list of identity tags
                out.append(walk(e))
            return tuple(out)
        return x
    return walk(summ)


def _observable_identity(trace, outcome):
    """The identity tags of a returned local matter only when the object is observable beyond its value: a parameter / global object
    (`in:..`), or a local object that some effect of the path mentions (it was mutated, stored somewhere, passed to a call).  A fresh
    value that is merely given a name and returned (`y = f(..); return y` vs `return f(..)`) has no observable identity."""
    if not (isinstance(outcome, tuple) and len(outcome) == 3 and outcome[0] == "return" and outcome[2]):
        return outcome
    import re
    blob = repr(trace)
    keep = tuple(i for i in outcome[2] if i.startswith("in:") or re.search(r"(?<![\w#.])%s(?!\w)" % re.escape(i), blob))
    return (outcome[0], outcome[1], keep)


def signature(func):
    return (ast.dump(func.args), tuple(ast.dump(d) for d in func.decorator_list), func.name)


def free_names(func):
    """names the function reads that it neither binds nor receives: resolved in the module / builtins at run time"""
    from .canon import locals_of, params_of
    bound = locals_of(func) | params_of(func)
    for n in ast.walk(func):
        if isinstance(n, (ast.FunctionDef, ast.AsyncFunctionDef, ast.Lambda)) and n is not func:
            bound |= params_of(n)
            if hasattr(n, "name"):
                bound.add(n.name)
        elif isinstance(n, ast.ClassDef):
            bound.add(n.name)
        elif isinstance(n, ast.comprehension):
            bound |= {x.id for x in ast.walk(n.target) if isinstance(x, ast.Name)}
        elif isinstance(n, (ast.Import, ast.ImportFrom)):
            bound |= {(a.asname or a.name).split(".")[0] for a in n.names}
        elif isinstance(n, ast.ExceptHandler) and n.name:
            bound.add(n.name)
    return {n.id for n in ast.walk(func) if isinstance(n, ast.Name) and isinstance(n.ctx, ast.Load) and n.id not in bound}


def functions_equivalent(cfunc, rfunc, module_names=None):
    """-> (True, '') | (False, reason)"""
    if signature(cfunc) != signature(rfunc):
        return False, "signature / decorators differ"
    # a name that is read but bound nowhere (its only assignment was removed) is a NameError at run time; the summaries cannot see that,
    # because a read of a free name is just a symbol: every free name must be one the reference reads too, a module-level name or a builtin
    import builtins
    known = free_names(rfunc) | set(dir(builtins)) | set(module_names or ())
    undefined = sorted(free_names(cfunc) - known)
    if undefined:
        return False, "reads name(s) bound nowhere: %s" % ", ".join(undefined[:4])
    try:
        a = summary(cfunc)
        b = summary(rfunc)
    except TooManyPaths:
        return False, "too many paths"
    except RecursionError:
        return False, "recursion limit"
    if a == b:
        return True, "%d path(s)" % len(a)
    return False, "summaries differ"


def package_equivalent(repo, ref):
    """every module of `repo` against the reference Repo: module-level statements identical, every reference function either
    identical (after canonicalisation) or summary-equivalent; extra private functions are tolerated only as inlined helpers.
    -> (ok, reasons, stats)"""
    reasons, n_same, n_equiv = [], 0, []
    if set(repo.mods) != set(ref.mods):
        return False, ["module set differs: %s" % sorted(set(repo.mods) ^ set(ref.mods))], {}
    for short in sorted(repo.mods):
        ct, rt = repo.mods[short].tree, ref.mods[short].tree
        cf = {n.name: n for n in ct.body if isinstance(n, ast.FunctionDef)}
        rf = {n.name: n for n in rt.body if isinstance(n, ast.FunctionDef)}
        co = [ast.dump(n) for n in ct.body if not isinstance(n, ast.FunctionDef) and not (isinstance(n, ast.Expr) and isinstance(n.value, ast.Constant))]
        ro = [ast.dump(n) for n in rt.body if not isinstance(n, ast.FunctionDef) and not (isinstance(n, ast.Expr) and isinstance(n.value, ast.Constant))]
        if co != ro:
            reasons.append("%s: module-level statements differ" % short)
            continue
        missing = set(rf) - set(cf)
        if missing:
            reasons.append("%s: functions removed: %s" % (short, sorted(missing)))
            continue
        extra = set(cf) - set(rf)
        inl = {a.split()[-1] for acts in repo.mods[short].canon_log.values() for a in acts if a.startswith("inline-helper ")}
        if extra - inl:
            reasons.append("%s: new functions that were not inlined: %s" % (short, sorted(extra - inl)))
            continue
        for name in sorted(rf):
            if ast.dump(cf[name]) == ast.dump(rf[name]):
                n_same += 1
                continue
            # cheap necessary condition first: a first-order edit that is not the identity cannot be equivalent unless the summaries say so;
            # the summaries of large functions cost seconds, so stop at the first function that is not equivalent
            mod_names = set()
            for n_ in ct.body:
                if isinstance(n_, (ast.FunctionDef, ast.ClassDef)):
                    mod_names.add(n_.name)
                elif isinstance(n_, (ast.Import, ast.ImportFrom)):
                    mod_names |= {(a.asname or a.name).split(".")[0] for a in n_.names}
                elif isinstance(n_, (ast.Assign, ast.AnnAssign, ast.AugAssign)):
                    mod_names |= {x.id for x in ast.walk(n_) if isinstance(x, ast.Name) and isinstance(x.ctx, ast.Store)}
            ok, why = functions_equivalent(cf[name], rf[name], module_names=mod_names)
            if ok:
                n_equiv.append("%s.%s (%s)" % (short, name, why))
            else:
                reasons.append("%s.%s: %s" % (short, name, why))
                return False, reasons, {"identical": n_same, "equivalent": n_equiv}
        if reasons:
            return False, reasons, {"identical": n_same, "equivalent": n_equiv}
    return (not reasons), reasons, {"identical": n_same, "equivalent": n_equiv}


import re as _re


def _strip(x):
    if isinstance(x, str):
        return _re.sub(r"@\d+", "", x)
    if isinstance(x, tuple):
        return tuple(_strip(y) for y in x)
    return x


def path_facts(func):
    """every path through the top-level control flow of a (canonicalised) function:
    [{'decisions': {condition text: bool}, 'effects': [tuple, ...], 'outcome': tuple | None}]  - epoch tags removed from all texts.
    Nested bodies (loops, try) appear as effect nodes; use `flatten_effects` to look inside them."""
    body = [s for s in func.body if not (isinstance(s, ast.Expr) and isinstance(s.value, ast.Constant))]
    out = []
    for d, t, o, _ in explore(body, {}, "n"):
        out.append({"decisions": {_strip(k): v for k, v in d}, "effects": [_strip(x) for x in t], "outcome": _strip(o) if o else None})
    return out


def flatten_effects(effects):
    """all effect tuples including those inside nested nodes (without their path structure)"""
    out = []

    def walk(x):
        if isinstance(x, tuple):
            if x and isinstance(x[0], str) and x[0].startswith("e") and x[0][1:].isdigit():
                out.append(x)
            for y in x:
                walk(y)
    for e in effects:
        walk(e)
    return out
