"""R-TERM: straight-line symbolic evaluation into canonical terms with a rational normal form.

Element-wise arithmetic (+, -, *, /, unary -, ** small ints) is normalised to a pair of expanded
multivariate polynomials with Fraction coefficients over *atoms*.  Atoms are inputs and
uninterpreted nodes (indexing, reductions, where, abs, comparisons) whose children are normalised
recursively and keyed by their canonical text.  Two terms of this fragment denote the same function
iff their cross-multiplied polynomials coincide; anything outside the fragment becomes an opaque
atom tagged '?' so that a mismatch involving it is reported as UNRECOGNISED, not as a violation.
"""
import ast
from fractions import Fraction
from .front import dotted, const_value, unparse


# ---------------------------------------------------------------- polynomials
def p_const(c):
    c = Fraction(c)
    return {(): c} if c != 0 else {}


def p_atom(a):
    return {((a, 1),): Fraction(1)}


def p_add(a, b, sign=1):
    r = dict(a)
    for m, c in b.items():
        r[m] = r.get(m, 0) + sign * c
        if r[m] == 0:
            del r[m]
    return r


def p_mul(a, b):
    r = {}
    for m1, c1 in a.items():
        for m2, c2 in b.items():
            d = dict(m1)
            for k, e in m2:
                d[k] = d.get(k, 0) + e
            m = tuple(sorted((k, e) for k, e in d.items() if e))
            r[m] = r.get(m, 0) + c1 * c2
            if r[m] == 0:
                del r[m]
    return r


def p_key(p):
    return tuple(sorted((m, (c.numerator, c.denominator)) for m, c in p.items()))


class Rat:
    """rational function num/den"""
    __slots__ = ("n", "d")

    def __init__(self, n, d=None):
        self.n = n
        self.d = d if d is not None else p_const(1)

    @staticmethod
    def const(c):
        return Rat(p_const(c))

    @staticmethod
    def atom(a):
        return Rat(p_atom(a))

    def __add__(self, o):
        return Rat(p_add(p_mul(self.n, o.d), p_mul(o.n, self.d)), p_mul(self.d, o.d))

    def __sub__(self, o):
        return Rat(p_add(p_mul(self.n, o.d), p_mul(o.n, self.d), -1), p_mul(self.d, o.d))

    def __mul__(self, o):
        return Rat(p_mul(self.n, o.n), p_mul(self.d, o.d))

    def __truediv__(self, o):
        return Rat(p_mul(self.n, o.d), p_mul(self.d, o.n))

    def __neg__(self):
        return Rat(p_add({}, self.n, -1), self.d)

    def equals(self, o):
        return p_key(p_mul(self.n, o.d)) == p_key(p_mul(o.n, self.d))

    def atoms(self):
        s = set()
        for p in (self.n, self.d):
            for m in p:
                for k, _ in m:
                    s.add(k)
        return s

    def key(self):
        """canonical text (normalised by making the leading denominator coefficient 1 where possible)"""
        return "(%s)/(%s)" % (_ptext(self.n), _ptext(self.d))

    def is_poly(self):
        return p_key(self.d) == p_key(p_const(1))


def _ptext(p):
    parts = []
    for m, c in sorted(p.items()):
        mon = "*".join(k if e == 1 else "%s^%d" % (k, e) for k, e in m) or "1"
        parts.append("%s*%s" % (c, mon))
    return " + ".join(parts) or "0"


def canon(r):
    """canonical key of a Rat: if polynomial use the polynomial text, else num/den text"""
    return _ptext(r.n) if r.is_poly() else r.key()


# ---------------------------------------------------------------- evaluator
ELEMENTWISE_FUNCS = {"torch.sub": "-", "torch.add": "+", "torch.mul": "*", "torch.div": "/", "torch.true_divide": "/",
                     "torch.subtract": "-", "torch.multiply": "*", "torch.divide": "/"}


class TermEval:
    def __init__(self, env=None):
        self.env = dict(env or {})       # name -> Rat
        self.opaque = set()

    def atom(self, text, opaque=False):
        if opaque:
            text = "?" + text
            self.opaque.add(text)
        return Rat.atom(text)

    def kw(self, call):
        items = []
        for k in call.keywords:
            name = k.arg
            if name in ("keepdims",):
                name = "keepdim"
            if name in ("axis",):
                name = "dim"
            items.append("%s=%s" % (name, self.text(k.value)))
        return ",".join(sorted(items))

    def text(self, e):
        """canonical text of an arbitrary (possibly non-arithmetic) expression"""
        if isinstance(e, (ast.Tuple, ast.List)):
            return "(" + ",".join(self.text(x) for x in e.elts) + ")"
        if isinstance(e, ast.Slice):
            return "%s:%s:%s" % tuple("" if x is None else self.text(x) for x in (e.lower, e.upper, e.step))
        if isinstance(e, ast.Constant):
            return repr(e.value)
        if isinstance(e, ast.Starred):
            return "*" + self.text(e.value)
        r = self.ev(e)
        return canon(r)

    def ev(self, e):
        if isinstance(e, ast.Constant):
            if isinstance(e.value, (int, float)) and not isinstance(e.value, bool):
                return Rat.const(Fraction(str(e.value)) if isinstance(e.value, float) else e.value)
            return self.atom(repr(e.value))
        if isinstance(e, ast.Name):
            if e.id in self.env:
                return self.env[e.id]
            return self.atom(e.id)
        if isinstance(e, ast.UnaryOp) and isinstance(e.op, ast.USub):
            return -self.ev(e.operand)
        if isinstance(e, ast.UnaryOp) and isinstance(e.op, ast.UAdd):
            return self.ev(e.operand)
        if isinstance(e, ast.BinOp):
            a, b = self.ev(e.left), self.ev(e.right)
            if isinstance(e.op, ast.Add):
                return a + b
            if isinstance(e.op, ast.Sub):
                return a - b
            if isinstance(e.op, ast.Mult):
                return a * b
            if isinstance(e.op, ast.Div):
                return a / b
            if isinstance(e.op, ast.Pow):
                k = const_value(e.right)
                if isinstance(k, int) and 0 <= k <= 6:
                    r = Rat.const(1)
                    for _ in range(k):
                        r = r * a
                    return r
            return self.atom("binop(%s,%s,%s)" % (type(e.op).__name__, canon(a), canon(b)), opaque=True)
        if isinstance(e, ast.Compare) and len(e.ops) == 1:
            a, b = self.ev(e.left), self.ev(e.comparators[0])
            op = type(e.ops[0]).__name__
            flip = {"Gt": "Lt", "GtE": "LtE"}
            if op in flip:
                a, b, op = b, a, flip[op]
            return self.atom("cmp(%s,%s,%s)" % (op, canon(a), canon(b)))
        if isinstance(e, ast.Subscript):
            base = self.ev(e.value)
            return self.atom("idx(%s)[%s]" % (canon(base), self.text(e.slice)))
        if isinstance(e, ast.Attribute):
            base = self.ev(e.value)
            return self.atom("%s.%s" % (canon(base), e.attr))
        if isinstance(e, ast.IfExp):
            return self.atom("ifexp(%s,%s,%s)" % (self.text(e.test), self.text(e.body), self.text(e.orelse)))
        if isinstance(e, ast.Call):
            return self.call(e)
        if isinstance(e, (ast.Tuple, ast.List)):
            return self.atom(self.text(e))
        return self.atom(unparse(e), opaque=True)

    def halves(self, arg):
        """*x.chunk(2) / *torch.chunk(x, 2) -> (first(x), second(x))"""
        if isinstance(arg, ast.Starred):
            v = arg.value
            if isinstance(v, ast.Call):
                d = dotted(v.func)
                if isinstance(v.func, ast.Attribute) and v.func.attr == "chunk" and d != "torch.chunk" \
                        and len(v.args) == 1 and const_value(v.args[0]) == 2:
                    x = canon(self.ev(v.func.value))
                    return self.atom("first(%s)" % x), self.atom("second(%s)" % x)
                if d == "torch.chunk" and len(v.args) == 2 and const_value(v.args[1]) == 2:
                    x = canon(self.ev(v.args[0]))
                    return self.atom("first(%s)" % x), self.atom("second(%s)" % x)
        return None

    def call(self, e):
        d = dotted(e.func)
        if d in ELEMENTWISE_FUNCS:
            op = ELEMENTWISE_FUNCS[d]
            if len(e.args) == 1:
                h = self.halves(e.args[0])
                if h is not None:
                    a, b = h
                else:
                    return self.atom(unparse(e), opaque=True)
            elif len(e.args) == 2:
                a, b = self.ev(e.args[0]), self.ev(e.args[1])
            else:
                return self.atom(unparse(e), opaque=True)
            return {"-": a - b, "+": a + b, "*": a * b, "/": a / b}[op]
        if d in ("torch.cat", "torch.concatenate") and e.args and isinstance(e.args[0], (ast.List, ast.Tuple)):
            parts = [self.ev(x) for x in e.args[0].elts]
            dim = self.kw(e)
            if len(parts) == 2 and parts[0].equals(parts[1]) and dim in ("", "dim=0"):
                # both halves of the [examples; references] batch carry the same value
                return parts[0]
            return self.atom("cat(%s;%s)" % (",".join(canon(p) for p in parts), dim))
        if d in ("len", "tuple", "range", "list") and not e.keywords:
            return self.atom("%s(%s)" % (d, ",".join(self.text(a) for a in e.args)))
        if d in ("torch.abs", "abs") and len(e.args) == 1:
            return self.atom("abs(%s)" % canon(self.ev(e.args[0])))
        # element-wise functions that are not the identity on the reals: kept as *interpreted* symbols, so a term that wraps
        # a quantity in one of them is known to differ from the bare quantity
        if d in ("torch.clamp", "torch.clip", "torch.relu", "torch.sigmoid", "torch.tanh", "torch.sign", "torch.round", "torch.floor",
                 "torch.ceil", "torch.exp", "torch.log", "torch.sqrt", "torch.nan_to_num", "F.relu", "torch.nn.functional.relu") and e.args:
            name = d.split(".")[-1]
            rest = ",".join(self.text(a) for a in e.args[1:])
            return self.atom("%s(%s;%s;%s)" % (name, canon(self.ev(e.args[0])), rest, self.kw(e)))
        if d == "torch.where" and len(e.args) == 3:
            return self.atom("where(%s,%s,%s)" % tuple(canon(self.ev(a)) for a in e.args))
        if d in ("torch.mean", "torch.sum", "torch.max", "torch.min", "numpy.mean", "numpy.sum", "torch.zeros_like",
                 "torch.ones_like", "torch.nansum", "min", "max", "float", "int") and e.args:
            name = d.split(".")[-1]
            pos = ",".join(self.text(a) for a in e.args[1:])
            return self.atom("%s(%s;%s;%s)" % (name, canon(self.ev(e.args[0])), pos, self.kw(e)))
        if isinstance(e.func, ast.Attribute):
            m = e.func.attr
            base = self.ev(e.func.value)
            if m in ("mean", "sum", "abs", "max", "min"):
                pos = ",".join(self.text(a) for a in e.args)
                if m == "abs":
                    return self.atom("abs(%s)" % canon(base))
                return self.atom("%s(%s;%s;%s)" % (m, canon(base), pos, self.kw(e)))
            if m in ("clone", "detach", "float", "double", "contiguous", "to", "cpu", "type"):
                return base
            if m == "reciprocal" and not e.args:
                return Rat.const(1) / base
            if m in ("clamp", "clip", "relu", "sigmoid", "tanh", "sign", "round", "floor", "ceil", "exp", "log", "sqrt", "nan_to_num",
                     "clamp_", "clip_"):
                rest = ",".join(self.text(a) for a in e.args)
                return self.atom("%s(%s;%s;%s)" % (m.rstrip("_"), canon(base), rest, self.kw(e)))
        return self.atom(unparse(e), opaque=True)

    # statements: straight-line assignment / augmented assignment on names
    def run(self, stmts):
        """evaluate statements; returns the Rat of the first `return` value (or None)"""
        for s in stmts:
            if isinstance(s, ast.Expr):
                continue
            if isinstance(s, ast.Assign) and len(s.targets) == 1 and isinstance(s.targets[0], ast.Name):
                self.env[s.targets[0].id] = self.ev(s.value)
                continue
            if isinstance(s, ast.Assign) and len(s.targets) == 1 and isinstance(s.targets[0], (ast.Tuple, ast.List)) \
                    and len(s.targets[0].elts) == 2 and all(isinstance(t, ast.Name) for t in s.targets[0].elts):
                # a, b = x.chunk(2)  /  torch.chunk(x, 2): the two halves of the [examples; references] batch
                h = self.halves(ast.Starred(value=s.value, ctx=ast.Load()))
                if h is not None:
                    self.env[s.targets[0].elts[0].id], self.env[s.targets[0].elts[1].id] = h
                    continue
                if isinstance(s.value, (ast.Tuple, ast.List)) and len(s.value.elts) == 2:
                    v0, v1 = self.ev(s.value.elts[0]), self.ev(s.value.elts[1])
                    self.env[s.targets[0].elts[0].id], self.env[s.targets[0].elts[1].id] = v0, v1
                    continue
                return ("stop", s)
            if isinstance(s, ast.AugAssign) and isinstance(s.target, ast.Name):
                cur = self.ev(ast.Name(id=s.target.id, ctx=ast.Load()))
                v = self.ev(s.value)
                if isinstance(s.op, ast.Add):
                    self.env[s.target.id] = cur + v
                elif isinstance(s.op, ast.Sub):
                    self.env[s.target.id] = cur - v
                elif isinstance(s.op, ast.Mult):
                    self.env[s.target.id] = cur * v
                elif isinstance(s.op, ast.Div):
                    self.env[s.target.id] = cur / v
                else:
                    self.env[s.target.id] = self.atom(unparse(s), opaque=True)
                continue
            if isinstance(s, ast.If):
                test = self.text(s.test)
                a = TermEval(self.env)
                b = TermEval(self.env)
                ra = a.run(s.body)
                rb = b.run(s.orelse)
                self.opaque |= a.opaque | b.opaque
                if ra is not None or rb is not None:
                    return ("stop", s)
                for k in set(a.env) | set(b.env):
                    va, vb = a.env.get(k), b.env.get(k)
                    if va is None:
                        va = self.atom(k)
                    if vb is None:
                        vb = self.atom(k)
                    self.env[k] = va if va.equals(vb) else self.atom("ite(%s,%s,%s)" % (test, canon(va), canon(vb)))
                continue
            if isinstance(s, ast.Return):
                return s.value
            return ("stop", s)
        return None


def eval_source(src, env=None):
    """evaluate a snippet of statements ending in `return <expr>`; -> (Rat, TermEval)"""
    te = TermEval(env)
    tree = ast.parse(src)
    r = te.run(tree.body)
    if r is None or isinstance(r, tuple):
        raise ValueError("expected snippet does not end in a return")
    return te.ev(r), te


def eval_function(fi):
    """-> (Rat | None, TermEval, reason)"""
    te = TermEval()
    body = [s for s in fi.node.body if not (isinstance(s, ast.Expr) and isinstance(s.value, ast.Constant))]
    r = te.run(body)
    if r is None:
        return None, te, "no return reached"
    if isinstance(r, tuple):
        return None, te, "statement outside the straight-line fragment at line %d" % r[1].lineno
    return te.ev(r), te, ""


def compare(got, expected, te):
    """-> 'EQUAL' | 'DIFFERENT' | 'UNKNOWN' (difference involves an opaque atom)"""
    if got.equals(expected):
        return "EQUAL"
    if any(a.startswith("?") or "?" in a for a in got.atoms()):
        return "UNKNOWN"
    return "DIFFERENT"


INTERPRETED = ("clamp(", "clip(", "relu(", "sigmoid(", "tanh(", "sign(", "round(", "floor(", "ceil(", "exp(", "log(", "sqrt(", "nan_to_num(", "abs(")


def structural_difference(got, expected):
    """True when two unequal terms are built from the SAME atoms (different polynomial), or differ only by atoms that are interpreted
    non-identity functions (clamp, relu, ...): then the difference is arithmetic.  When one side mentions atoms the other does not
    (another spelling of an index, `x.ndim` for `len(x.shape)`, another variable) the normal forms cannot tell a synonym from a defect."""
    a, b = got.atoms(), expected.atoms()
    if a == b:
        return True
    extra = a ^ b
    return all(any(x.startswith(p) or ("1*" + p) in x for p in INTERPRETED) for x in extra)
