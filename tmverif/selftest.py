"""Checker self-test on scratch copies (thorough tier).

A corpus of small source edits of the *current* tree (located by a source snippet that must occur exactly
once; an edit whose snippet no longer occurs is reported as skipped).  For a *breaking* edit the property's
check must print a VIOLATION; for a behaviour-*preserving* edit it must stay silent (exit 0).  Every variant
must byte-compile.  Scratch copies live under a fresh tempfile.mkdtemp() outside /repo and /verif and are
removed before exit.  A miss is an ANALYSIS-ERROR (exit 2) of the checker, never a property verdict.
"""
import json
import os
import shutil
import sys
import tempfile
import py_compile
from concurrent.futures import ProcessPoolExecutor

from .front import REPO
from . import core


def corpus_for(pid):
    from .corpus import CORPUS
    return [c for c in CORPUS if c["property"] == pid]


def make_variant(case, root=None):
    """copy the package into a scratch dir and apply the edit; returns (dir | None, reason)"""
    root = root or REPO
    tmp = tempfile.mkdtemp(prefix="tmverif-selftest-")
    try:
        shutil.copytree(os.path.join(root, "tangermeme"), os.path.join(tmp, "tangermeme"),
                        ignore=shutil.ignore_patterns("__pycache__"))
        for ed in case["edits"]:
            path = os.path.join(tmp, ed["file"])
            if ed.get("from_commit"):
                # the file as it was at a given commit of /repo (used to replay the defects repaired by fix: commits)
                import subprocess
                r = subprocess.run(["git", "-C", root, "show", "%s:%s" % (ed["from_commit"], ed["file"])],
                                   capture_output=True, text=True)
                if r.returncode != 0:
                    shutil.rmtree(tmp, ignore_errors=True)
                    return None, "commit %s not available" % ed["from_commit"]
                with open(path, "w") as f:
                    f.write(r.stdout)
                continue
            src = open(path).read()
            if src.count(ed["old"]) != 1:
                shutil.rmtree(tmp, ignore_errors=True)
                return None, "snippet occurs %d times in %s" % (src.count(ed["old"]), ed["file"])
            src = src.replace(ed["old"], ed["new"])
            with open(path, "w") as f:
                f.write(src)
            try:
                py_compile.compile(path, cfile=os.path.join(tmp, "x.pyc"), doraise=True)
            except py_compile.PyCompileError as e:
                shutil.rmtree(tmp, ignore_errors=True)
                return None, "variant does not compile: %s" % e
        return tmp, ""
    except Exception:
        shutil.rmtree(tmp, ignore_errors=True)
        raise


def run_case(args):
    pid, case = args
    tmp, why = make_variant(case)
    if tmp is None:
        return case["id"], "skipped", why
    try:
        rc, out, results = core.run_property(pid, "quick", None, tmp, write_evidence=False, quiet=True)
        viol = [r for r in results if r.status == core.VIOLATION and not r.note]
        want = case["expect"]
        if want == "NOT-SILENT":
            # a breaking edit that rewrites the function beyond a first-order edit while only a spelling-based rule covers the clause: the
            # rewrite gate may turn the finding into ANALYSIS-ERROR; what must never happen is a silent pass
            ok = rc in (1, 2)
            detail = "exit %d %s" % (rc, "; ".join("%s %s" % (r.rule, r.func) for r in viol))
        elif want == "VIOLATION":
            ok = rc == 1 and any((case.get("rule") in (None, r.rule)) and (case.get("func") in (None, r.func)) for r in viol)
            detail = "; ".join("%s %s" % (r.rule, r.func) for r in viol) or "exit %d" % rc
        else:
            ok = rc == 0
            detail = "exit %d %s" % (rc, "; ".join(l for l in out if l.startswith(("VIOLATION", "ANALYSIS-ERROR")))[:300])
        return case["id"], "ok" if ok else "MISS", detail
    finally:
        shutil.rmtree(tmp, ignore_errors=True)


def run(pid, jobs=None):
    cases = corpus_for(pid)
    jobs = jobs or min(16, max(1, len(cases)))
    fired = silent = skipped = 0
    n_break = sum(1 for c in cases if c["expect"] in ("VIOLATION", "NOT-SILENT"))
    n_keep = len(cases) - n_break
    misses = []
    rows = []
    if cases:
        with ProcessPoolExecutor(max_workers=jobs) as ex:
            for cid, status, detail in ex.map(run_case, [(pid, c) for c in cases]):
                rows.append((cid, status, detail))
    byid = {c["id"]: c for c in cases}
    for cid, status, detail in rows:
        c = byid[cid]
        if status == "skipped":
            skipped += 1
        elif status == "ok":
            if c["expect"] in ("VIOLATION", "NOT-SILENT"):
                fired += 1
            else:
                silent += 1
        else:
            misses.append((cid, c["expect"], detail))
        print("  selftest %-34s expect=%-9s %s  %s" % (cid, c["expect"], status, detail[:140]))
    summary = {"breaking_variants": n_break, "fired": fired, "preserving_variants": n_keep, "silent": silent,
               "skipped": skipped, "misses": [m[0] for m in misses]}
    print("selftest property=%s fired %d/%d, silent %d/%d, skipped %d" % (pid, fired, n_break, silent, n_keep, skipped))
    # sensitivity sweep: a seeded sample of automatically generated first-order mutants of the anchored functions
    sweep = None
    try:
        import importlib
        mod = importlib.import_module("tmverif.props." + pid.lower())
        anchors = getattr(mod, "ANCHORS", [])
        if anchors:
            from . import mutate
            seed = int(os.environ.get("VERIF_SEED", "0") or 0)
            sweep = mutate.sample_sweep(pid, anchors, k=int(os.environ.get("TMVERIF_SWEEP", "48")), seed=seed)
            print("sensitivity sweep property=%s sampled %d of %d mutants: %s" % (pid, sweep["sampled"], sweep["mutants_available"], sweep["counts"]))
    except Exception as e:
        print("sensitivity sweep skipped: %s" % e)
    # false-alarm sweep: a seeded sample of automatically generated BEHAVIOUR-PRESERVING rewrites of the anchored functions; a check that
    # reports a violation on one of them is broken (self-test failure), exit 2 on one is tolerated and counted
    psweep = None
    try:
        if anchors:
            from . import preserve
            seed = int(os.environ.get("VERIF_SEED", "0") or 0)
            kk = int(os.environ.get("TMVERIF_PSWEEP", "12" if pid == "C13" else "40"))
            psweep = preserve.sample_sweep(pid, anchors, k=kk, seed=seed)
            print("false-alarm sweep property=%s sampled %d of %d preserving rewrites: %s" % (pid, psweep["sampled"], psweep["rewrites_available"], psweep["counts"]))
            for fa in psweep["false_alarms"]:
                misses.append(("preserving-rewrite", "HOLDS", fa[:300]))
    except Exception as e:
        print("false-alarm sweep skipped: %s" % e)
    # fold into the evidence file written by the property run
    path = os.path.join(core.EVIDENCE, pid + ".json")
    try:
        ev = json.load(open(path))
        ev["tier"] = "thorough"
        ev["coverage"]["selftest"] = summary
        ev["coverage"]["sensitivity_sweep"] = sweep
        ev["coverage"]["false_alarm_sweep"] = psweep
        if psweep:
            ev["coverage"]["evaluations"] = ev["coverage"].get("evaluations", 0) + psweep["sampled"]
        if sweep:
            ev["coverage"]["evaluations"] = ev["coverage"].get("evaluations", 0) + sweep["sampled"]
        ev["coverage"]["evaluations"] = ev["coverage"].get("evaluations", 0) + len(cases) - skipped
        with open(path, "w") as f:
            json.dump(ev, f, indent=1)
    except Exception as e:
        print("ANALYSIS-ERROR cannot update evidence with self-test: %s" % e)
        return 2
    if misses:
        for cid, want, detail in misses:
            print("ANALYSIS-ERROR property=%s self-test miss: variant %s expected %s got: %s" % (pid, cid, want, detail))
        return 2
    return 0


if __name__ == "__main__":
    sys.exit(run(sys.argv[1]))
