#!/venv/bin/python
"""Development aid: show where the symbolic summaries (tmverif.equiv) of a function in a scratch tree and in the reference diverge.
usage: tools/equiv_diff.py <scratch root containing tangermeme/> <module.func> [--full]"""
import sys, os, difflib, pprint
sys.path.insert(0, os.path.dirname(os.path.dirname(os.path.abspath(__file__))))
from tmverif.front import Repo
from tmverif import equiv, canon
root, q = sys.argv[1], sys.argv[2]
repo, ref = Repo(root), Repo(canon.REFERENCE_DIR)
mod, fn = q.rsplit(".", 1)
c, r = repo.mods[mod].funcs[fn].node, ref.mods[mod].funcs[fn].node
print("canon log:", repo.mods[mod].canon_log.get(fn))
a, b = equiv.summary(c), equiv.summary(r)
print("paths: variant %d reference %d" % (len(a), len(b)))
def fmt(s):
    out = []
    for d, t, o in s:
        out.append("PATH decisions=%r" % (d,))
        for e in equiv.flatten_effects(t) if "--flat" in sys.argv else t:
            out.append("   " + repr(e)[:400])
        out.append("   => " + repr(o)[:400])
    return out
fa, fb = fmt(a), fmt(b)
n = 0
for l in difflib.unified_diff(fb, fa, "reference", "variant", lineterm="", n=2):
    print(l[:420])
    n += 1
    if n > 80 and "--full" not in sys.argv:
        break
