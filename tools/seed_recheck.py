#!/venv/bin/python
"""Re-run every registered check against every filed seed (/verif/seeded/*/patch.diff) on scratch worktrees and update meta.json
(checks only: demo/tests were confirmed when the seed was filed).  Prints a detection table."""
import json, os, subprocess, sys, glob
from concurrent.futures import ThreadPoolExecutor
VERIF = os.path.dirname(os.path.dirname(os.path.abspath(__file__)))
rows = []
own_only = "--own" in sys.argv
dirs = [d for d in sorted(glob.glob(os.path.join(VERIF, "seeded", "*"))) if os.path.exists(os.path.join(d, "patch.diff"))]


def ev(d):
    meta = json.load(open(os.path.join(d, "meta.json")))
    cmd = [os.path.join(VERIF, "tools", "seed_eval.py"), d]
    if own_only:
        cmd += ["--props", meta["property"]]
    return d, subprocess.run(cmd, capture_output=True, text=True)


with ThreadPoolExecutor(6) as ex:
    evaluated = list(ex.map(ev, dirs))
for d, r in evaluated:
    meta = json.load(open(os.path.join(d, "meta.json")))
    try:
        res = json.loads(r.stdout)
    except Exception:
        print(os.path.basename(d), "EVAL-ERROR", r.stdout[-300:], r.stderr[-300:])
        continue
    fired = [f["property"] for f in res.get("checks_fired", [])]
    prev = meta.get("detected_by_own_property_check")
    meta.setdefault("history", [])
    if not meta["history"]:
        meta["history"].append({"first_evaluation_detected": bool(prev), "fired": [f["property"] for f in meta.get("checks_fired", [])]})
    meta["checks_fired"] = res.get("checks_fired")
    meta["checks_error"] = res.get("checks_error")
    meta["detected_by_own_property_check"] = meta["property"] in fired
    json.dump(meta, open(os.path.join(d, "meta.json"), "w"), indent=1)
    rows.append((os.path.basename(d), meta["property"], meta["history"][0]["first_evaluation_detected"], meta["property"] in fired, fired,
                 [e["property"] for e in res.get("checks_error", [])]))
print("%-8s %-5s %-14s %-10s %s" % ("seed", "prop", "first-eval", "now", "all checks fired / errors"))
for r in rows:
    print("%-8s %-5s %-14s %-10s %s %s" % (r[0], r[1], "detected" if r[2] else "MISSED", "detected" if r[3] else "MISSED", r[4], ("errors:%s" % r[5]) if r[5] else ""))
