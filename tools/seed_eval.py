#!/venv/bin/python
"""Evaluate a seeded change: tools/seed_eval.py <seed-dir> [--tests] [--props C01,C02]
 1. scratch git worktree of /repo (outside /repo and /verif), apply <seed-dir>/patch.diff
 2. demo.py must exit != 0 on the scratch tree and 0 on /repo
 3. (--tests) run the test files related to the touched modules (or the whole suite for core modules)
 4. run every registered check with --repo <scratch>; print which ones report a VIOLATION
The scratch worktree is removed afterwards."""
import json, os, subprocess, sys, tempfile, shutil, re
VERIF = os.path.dirname(os.path.dirname(os.path.abspath(__file__)))
seed = os.path.abspath(sys.argv[1])
do_tests = "--tests" in sys.argv
props = None
for i, a in enumerate(sys.argv):
    if a == "--props":
        props = sys.argv[i + 1].split(",")
tmp = tempfile.mkdtemp(prefix="seedeval-")
wt = os.path.join(tmp, "wt")
res = {"seed": seed}
try:
    subprocess.run(["git", "-C", "/repo", "worktree", "add", "-q", "--detach", wt, "HEAD"], check=True)
    r = subprocess.run(["git", "-C", wt, "apply", "--whitespace=nowarn", os.path.join(seed, "patch.diff")], capture_output=True, text=True)
    res["applies"] = r.returncode == 0
    if r.returncode != 0:
        res["apply_error"] = r.stderr[-500:]
    else:
        touched = re.findall(r"^\+\+\+ b/(\S+)", open(os.path.join(seed, "patch.diff")).read(), re.M)
        res["touched"] = touched
        env = dict(os.environ, PYTHONPATH=wt, NUMBA_CACHE_DIR=os.path.join(tmp, "nc"))
        demo = os.path.join(seed, "demo.py")
        if os.path.exists(demo):
            a = subprocess.run(["/venv/bin/python", demo], cwd=wt, env=env, capture_output=True, text=True, timeout=1800)
            res["demo_on_mutant_exit"] = a.returncode
            res["demo_on_mutant_tail"] = (a.stdout + a.stderr)[-400:]
            env2 = dict(os.environ, PYTHONPATH="/repo", NUMBA_CACHE_DIR=os.path.join(tmp, "nc2"))
            b = subprocess.run(["/venv/bin/python", demo], cwd="/repo", env=env2, capture_output=True, text=True, timeout=1800)
            res["demo_on_clean_exit"] = b.returncode
            if b.returncode != 0:
                res["demo_on_clean_tail"] = (b.stdout + b.stderr)[-400:]
        if do_tests:
            core = {"tangermeme/ersatz.py", "tangermeme/utils.py", "tangermeme/predict.py", "tangermeme/io.py"}
            if set(touched) & core:
                targets = ["tests"]
            else:
                targets = []
                for t in touched:
                    m = os.path.basename(t)[:-3]
                    for cand in ("tests/test_%s.py" % m, "tests/tools/test_%s.py" % m):
                        if os.path.exists(os.path.join(wt, cand)):
                            targets.append(cand)
                dep = {"deep_lift_shap": ["tests/test_ablate.py", "tests/test_marginalize.py", "tests/test_space.py"],
                       "tomtom": ["tests/test_annotate.py", "tests/test_seqlet.py"], "marginalize": ["tests/test_variant_effect.py"]}
                for t in touched:
                    targets += dep.get(os.path.basename(t)[:-3], [])
            if not targets:
                targets = ["tests/test_ersatz.py", "tests/test_predict.py", "tests/test_marginalize.py"]
            t = subprocess.run(["/venv/bin/python", "-m", "pytest", "-q", "-p", "no:cacheprovider", "-x", "-n", "6",
                                "--deselect", "tests/tools/test_cmd_tomtom.py",
                                # pre-existing flake (also on the pinned snapshot, 2/10 - 3/8 under load): the test passes a (length, alphabet)
                                # shaped target, tomtom then reads beyond the query's alphabet rows (see DESIGN.md section 7)
                                "--deselect", "tests/tools/test_tomtom.py::test_tomtom_homomotifs", "-k", "not captum"] + sorted(set(targets)),
                               cwd=wt, env=env, capture_output=True, text=True, timeout=3600)
            res["tests_targets"] = sorted(set(targets))
            res["tests_exit"] = t.returncode
            res["tests_tail"] = t.stdout[-300:]
        man = json.load(open(os.path.join(VERIF, "MANIFEST.json")))
        fired, errs = [], []
        for c in man["checks"]:
            pid = c["property_id"]
            if props and pid not in props:
                continue
            k = subprocess.run([os.path.join(VERIF, "check"), pid, "--repo", wt, "--no-evidence"], capture_output=True, text=True)
            if k.returncode == 1:
                lines = [l.strip() for l in k.stdout.split("\n") if l.strip().startswith("rule=")]
                fired.append({"property": pid, "sites": lines[:4]})
            elif k.returncode != 0:
                errs.append({"property": pid, "exit": k.returncode,
                             "msg": [l for l in k.stdout.split("\n") if l.startswith("ANALYSIS-ERROR")][:2]})
        res["checks_fired"] = fired
        res["checks_error"] = errs
finally:
    subprocess.run(["git", "-C", "/repo", "worktree", "remove", "--force", wt], capture_output=True)
    subprocess.run(["git", "-C", "/repo", "worktree", "prune"], capture_output=True)
    shutil.rmtree(tmp, ignore_errors=True)
print(json.dumps(res, indent=1))
