#!/venv/bin/python
"""Mutation sweep (development aid): see tmverif/mutate.py.  usage: tools/mutsweep.py <PID> --funcs mod.func,... [--jobs N] [--limit N] [--json out]"""
import os, sys
sys.path.insert(0, os.path.dirname(os.path.dirname(os.path.abspath(__file__))))
from tmverif.mutate import main
main()
