"""Soundness test of tmverif.equiv (development aid): every first-order mutant (tmverif.mutate) of every anchored function of the reference
is canonicalised and compared with the reference; a mutant claimed EQUIVALENT must be a genuinely behaviour-preserving edit (each claim is
listed and was read).  `preserve` mode: the behaviour-preserving rewrites of tmverif.preserve, listing those NOT proved.
usage: tools/equiv_soundness.py mut|preserve"""
import sys, ast, copy, time
sys.path.insert(0,'/verif')
from tmverif import equiv, canon, mutate, preserve
import importlib, os
from concurrent.futures import ProcessPoolExecutor
REF='/verif/reference'
mode = sys.argv[1]
gen = mutate.mutants_of if mode=='mut' else preserve.rewrites_of
app = mutate.apply if mode=='mut' else preserve.apply
def funcs():
    seen=set()
    for i in range(1,21):
        m=importlib.import_module('tmverif.props.c%02d'%i)
        for q in m.ANCHORS:
            if q in seen: continue
            seen.add(q); yield q
def work(q):
    import signal
    def _to(*a): raise TimeoutError(q)
    signal.signal(signal.SIGALRM, _to); signal.alarm(900)
    try:
        return _work(q)
    except TimeoutError:
        return ['TIMEOUT %s' % q], 0, 0
    finally:
        signal.alarm(0)
def _work(q):
    out=[]; tot=eqv=0
    mod,fname=q.rsplit('.',1)
    path=os.path.join(REF,'tangermeme',*mod.split('.'))+'.py'
    src=open(path).read()
    tree=ast.parse(src)
    f=[n for n in tree.body if isinstance(n,ast.FunctionDef) and n.name==fname]
    if not f: return out,0,0
    specs=gen(f[0])
    if len(specs)>150:
        import random; random.Random(0).shuffle(specs); specs=specs[:150]
    r0=[n for n in ast.parse(src).body if isinstance(n,ast.FunctionDef) and n.name==fname][0]
    r2=copy.deepcopy(r0); canon.normalise(r2)
    for desc,spec in specs:
        t2=ast.parse(src)
        g=[n for n in t2.body if isinstance(n,ast.FunctionDef) and n.name==fname][0]
        try:
            app(g,spec)
            new=ast.unparse(t2); compile(new,'x','exec')
        except Exception as e:
            continue
        t3=ast.parse(new)
        if ast.dump(t3)==ast.dump(ast.parse(src)): continue
        g=[n for n in t3.body if isinstance(n,ast.FunctionDef) and n.name==fname][0]
        canon.canonicalise_function(g, copy.deepcopy(r0))
        tot+=1
        try:
            ok,why=equiv.functions_equivalent(g,r2)
        except Exception as e:
            ok,why=False,'EXC %r'%e
            out.append('EXC %s %s %r'%(q,desc,e))
        if ok:
            eqv+=1
            if mode=='mut': out.append('EQUIV %s %s'%(q,desc))
        elif mode!='mut':
            out.append('NOT-EQUIV %s %s %s'%(q,desc,why))
    return out,tot,eqv
if __name__=='__main__':
    T=E=0
    with ProcessPoolExecutor(12) as ex:
        from concurrent.futures import as_completed
        futs=[ex.submit(work,q) for q in funcs()]
        for fu in as_completed(futs):
            out,t,e=fu.result()
            for l in out: print(l, flush=True)
            T+=t;E+=e
    print(mode,'total',T,'claimed equivalent',E)
