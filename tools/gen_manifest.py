#!/venv/bin/python
"""Regenerate /verif/MANIFEST.json from the per-property checker modules (keeps it schema-valid)."""
import importlib, json, os, sys
HERE = os.path.dirname(os.path.dirname(os.path.abspath(__file__)))
sys.path.insert(0, HERE)
ALL = ["C%02d" % i for i in range(1, 21)]
checks, na = [], []
for pid in ALL:
    try:
        m = importlib.import_module("tmverif.props." + pid.lower())
    except ModuleNotFoundError:
        na.append({"property_id": pid, "reason": "check not built yet (work in progress; see DESIGN.md section 4 for the plan)"})
        continue
    if getattr(m, "NOT_APPLICABLE", None):
        na.append({"property_id": pid, "reason": m.NOT_APPLICABLE})
        continue
    checks.append({
        "property_id": pid,
        "quick_cmd": "./check %s --tier quick" % pid,
        "thorough_cmd": "./check %s --tier thorough" % pid,
        "evidence_file": "/verif/evidence/%s.json" % pid,
        "replay_cmd_template": "./check %s --replay {path}" % pid,
        "engine": "tmverif",
        "level_claimed": {"category": "other", "text": m.LEVEL_TEXT, "design_ref": "DESIGN.md section 4, " + pid},
        "level_note": m.LEVEL_NOTE,
        "technique": m.TECHNIQUE,
    })
man = {
    "version": 1,
    "setup_cmd": "/venv/bin/python -m compileall -q /verif/tmverif >/dev/null 2>&1 || true",
    "hooks": {
        "guard": "TANGERMEME_VERIF",
        "enable": "none needed: the checks are static (ast of /repo's working tree) and execute nothing from /repo",
        "baseline_off_cmd": "cd /repo && /venv/bin/python -m pytest -ra -q -p no:cacheprovider --timeout=900 --continue-on-collection-errors",
        "source_commits": [],
        "add_only": True,
    },
    "engines": [{
        "name": "tmverif", "path": "/verif/tmverif",
        "serves_properties": [c["property_id"] for c in checks],
        "kind_free_text": "repository-specific static analyser over Python ast: trace-partitioned abstract interpretation in a "
                          "linear-constraint domain (Fourier-Motzkin entailment + bounded counter-model search), may-alias/effect "
                          "analysis with inter-procedural summaries, must-dominance/typestate walks, layout and scratch-buffer rules",
    }],
    "checks": checks,
    "notes": "All checks are static analysis (no code of /repo is imported or executed, no SMT solver). Exit 0 held / 1 VIOLATION / "
             "2 ANALYSIS-ERROR (anchor vanished or shape outside the rule's idiom table: never a silent pass, never an alarm). "
             "Clause-level not-applicable parts are listed per property in level_note and DESIGN.md section 5.",
    "not_applicable": na,
}
json.dump(man, open(os.path.join(HERE, "MANIFEST.json"), "w"), indent=1)
print("checks:", [c["property_id"] for c in checks], "not_applicable:", [n["property_id"] for n in na])
