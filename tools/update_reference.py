#!/venv/bin/python
"""Refresh /verif/reference from /repo's package source.  Run by hand, and only when the rule tables have been (re-)confirmed against
that source (after a `fix:` commit): the reference is what tmverif.canon aligns renamed / reshaped functions to.  Never run by a check."""
import os, shutil, sys
src = os.path.join(sys.argv[1] if len(sys.argv) > 1 else "/repo", "tangermeme")
dst = os.path.join(os.path.dirname(os.path.dirname(os.path.abspath(__file__))), "reference", "tangermeme")
shutil.rmtree(dst, ignore_errors=True)
for d, dirs, files in os.walk(src):
    dirs[:] = [x for x in dirs if x != "__pycache__"]
    for f in files:
        if f.endswith(".py"):
            rel = os.path.relpath(os.path.join(d, f), src)
            os.makedirs(os.path.dirname(os.path.join(dst, rel)), exist_ok=True)
            shutil.copy(os.path.join(d, f), os.path.join(dst, rel))
print("reference refreshed from", src)
