#!/venv/bin/python
"""Re-evaluate every filed behaviour-preserving refactoring (/verif/refactors/<set>/r*.diff, produced by sub-agents that were given only the
property text and verified by them against /repo on thousands of inputs) against the property the set was written for (or all checks with
--all).  Expected: no VIOLATION anywhere.  Prints one line per patch and a summary; exit 1 if any patch raises a false alarm."""
import glob, json, os, subprocess, sys
from concurrent.futures import ThreadPoolExecutor
VERIF = os.path.dirname(os.path.dirname(os.path.abspath(__file__)))
allp = "--all" in sys.argv
sets = sorted(glob.glob(os.path.join(VERIF, "refactors", "*")))


def ev(d):
    pid = os.path.basename(d).split("-")[-1]
    cmd = [os.path.join(VERIF, "tools", "refactor_eval.py"), d]
    if not allp:
        cmd += ["--props", pid]
    r = subprocess.run(cmd, capture_output=True, text=True)
    try:
        return d, json.loads(r.stdout)
    except Exception:
        return d, [{"patch": d, "applies": False, "apply_error": r.stdout[-200:] + r.stderr[-200:]}]


fa = un = ok = na = 0
with ThreadPoolExecutor(4) as ex:
    for d, res in ex.map(ev, sets):
        for r in res:
            name = os.path.relpath(r["patch"], os.path.join(VERIF, "refactors"))
            if not r.get("applies"):
                na += 1
                print("%-22s does not apply to the current tree" % name)
            elif r.get("false_alarms"):
                fa += 1
                print("%-22s FALSE ALARM %s" % (name, [(a["property"], a["sites"][:1]) for a in r["false_alarms"]]))
            elif r.get("unrecognised"):
                un += 1
                print("%-22s no verdict (exit 2) for %s" % (name, [e["property"] for e in r["unrecognised"]]))
            else:
                ok += 1
                print("%-22s holds (exit 0)" % name)
print("refactorings: %d hold, %d no verdict, %d FALSE ALARMS, %d not applicable" % (ok, un, fa, na))
sys.exit(1 if fa else 0)
