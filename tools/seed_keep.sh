#!/bin/sh
# tools/seed_keep.sh <seed-dir> <seed-id> <property>  : evaluate (with tests) and, if confirmed, file under /verif/seeded/<seed-id>/
set -e
SD="$1"; ID="$2"; PROP="$3"
OUT=/verif/seeded/$ID
/verif/tools/seed_eval.py "$SD" --tests > /tmp/seedeval-$ID.json
/venv/bin/python - "$SD" "$ID" "$PROP" <<'PY'
import json, sys, os, shutil
sd, sid, prop = sys.argv[1:4]
r = json.load(open('/tmp/seedeval-%s.json' % sid))
ok = r.get('applies') and r.get('demo_on_mutant_exit') not in (0, None) and r.get('demo_on_clean_exit') == 0 and r.get('tests_exit') == 0
print(sid, 'CONFIRMED' if ok else 'REJECTED', 'fired:', [f['property'] for f in r.get('checks_fired', [])], 'errors:', [e['property'] for e in r.get('checks_error', [])])
if not ok:
    print(json.dumps({k: r.get(k) for k in ('applies', 'apply_error', 'demo_on_mutant_exit', 'demo_on_clean_exit', 'demo_on_clean_tail', 'tests_exit', 'tests_tail')}, indent=1))
    sys.exit(0)
out = '/verif/seeded/%s' % sid
os.makedirs(out, exist_ok=True)
for f in ('patch.diff', 'demo.py', 'notes.md'):
    if os.path.exists(os.path.join(sd, f)):
        shutil.copy(os.path.join(sd, f), os.path.join(out, f))
notes = open(os.path.join(sd, 'notes.md')).read() if os.path.exists(os.path.join(sd, 'notes.md')) else ''
meta = {
    'property': prop,
    'touched': r.get('touched'),
    'needs_to_manifest': notes[:1500],
    'ran': {
        'demo_on_mutant_exit': r.get('demo_on_mutant_exit'), 'demo_on_clean_exit': r.get('demo_on_clean_exit'),
        'tests': r.get('tests_targets'), 'tests_exit': r.get('tests_exit'), 'tests_tail': r.get('tests_tail'),
        'how': 'tools/seed_eval.py: scratch git worktree of /repo HEAD + patch.diff; demo.py with PYTHONPATH=<scratch>; pytest on the listed targets; every registered check with --repo <scratch>',
    },
    'checks_fired': r.get('checks_fired'),
    'checks_error': r.get('checks_error'),
    'detected_by_own_property_check': any(f['property'] == prop for f in r.get('checks_fired', [])),
}
json.dump(meta, open(os.path.join(out, 'meta.json'), 'w'), indent=1)
PY
