#!/venv/bin/python
"""Evaluate behaviour-preserving refactorings (false-alarm probe): tools/refactor_eval.py <dir> [--tests] [--props C01,..]
For every <dir>/r*.diff: scratch git worktree of /repo HEAD + the patch, then every registered check with --repo <scratch>.
Expected: exit 0 everywhere.  exit 1 = FALSE ALARM (the check must be corrected); exit 2 = shape not recognised (no verdict).
With --tests the related test files are run on the scratch tree first (the refactoring must keep them green to count).
The scratch worktree is removed afterwards."""
import json, os, subprocess, sys, tempfile, shutil, re, glob
from concurrent.futures import ThreadPoolExecutor
VERIF = os.path.dirname(os.path.dirname(os.path.abspath(__file__)))
d = os.path.abspath(sys.argv[1])
do_tests = "--tests" in sys.argv
props = None
for i, a in enumerate(sys.argv):
    if a == "--props":
        props = sys.argv[i + 1].split(",")
man = json.load(open(os.path.join(VERIF, "MANIFEST.json")))
out = []
for patch in sorted(glob.glob(os.path.join(d, "r*.diff"))):
    tmp = tempfile.mkdtemp(prefix="refeval-")
    wt = os.path.join(tmp, "wt")
    res = {"patch": patch}
    try:
        subprocess.run(["git", "-C", "/repo", "worktree", "add", "-q", "--detach", wt, "HEAD"], check=True)
        r = subprocess.run(["git", "-C", wt, "apply", "--whitespace=nowarn", patch], capture_output=True, text=True)
        res["applies"] = r.returncode == 0
        if r.returncode != 0:
            res["apply_error"] = r.stderr[-300:]
            out.append(res)
            continue
        touched = re.findall(r"^\+\+\+ b/(\S+)", open(patch).read(), re.M)
        res["touched"] = touched
        c = subprocess.run(["/venv/bin/python", "-m", "compileall", "-q", os.path.join(wt, "tangermeme")], capture_output=True, text=True)
        res["compiles"] = c.returncode == 0
        if do_tests:
            env = dict(os.environ, PYTHONPATH=wt, NUMBA_CACHE_DIR=os.path.join(tmp, "nc"))
            targets = []
            for t in touched:
                m = os.path.basename(t)[:-3]
                for cand in ("tests/test_%s.py" % m, "tests/tools/test_%s.py" % m):
                    if os.path.exists(os.path.join(wt, cand)):
                        targets.append(cand)
            if not targets:
                targets = ["tests/test_ersatz.py", "tests/test_predict.py"]
            t = subprocess.run(["/venv/bin/python", "-m", "pytest", "-q", "-p", "no:cacheprovider", "-x", "-n", "6",
                                "--deselect", "tests/tools/test_cmd_tomtom.py",
                                "--deselect", "tests/tools/test_tomtom.py::test_tomtom_homomotifs", "-k", "not captum"] + sorted(set(targets)),
                               cwd=wt, env=env, capture_output=True, text=True, timeout=3600)
            res["tests_targets"] = sorted(set(targets))
            res["tests_exit"] = t.returncode
            res["tests_tail"] = t.stdout[-200:]

        def one(cc):
            pid = cc["property_id"]
            k = subprocess.run([os.path.join(VERIF, "check"), pid, "--repo", wt, "--no-evidence"], capture_output=True, text=True)
            return pid, k.returncode, k.stdout
        alarms, errs = [], []
        with ThreadPoolExecutor(8) as ex:
            for pid, rc, so in ex.map(one, [c for c in man["checks"] if not props or c["property_id"] in props]):
                if rc == 1:
                    alarms.append({"property": pid, "sites": [l.strip()[:400] for l in so.split("\n") if l.strip().startswith("[VIOLATION]")][:4]})
                elif rc != 0:
                    errs.append({"property": pid, "exit": rc, "msg": [l[:500] for l in so.split("\n") if l.startswith("ANALYSIS-ERROR")][:3]})
        res["false_alarms"] = alarms
        res["unrecognised"] = errs
    finally:
        subprocess.run(["git", "-C", "/repo", "worktree", "remove", "--force", wt], capture_output=True)
        subprocess.run(["git", "-C", "/repo", "worktree", "prune"], capture_output=True)
        shutil.rmtree(tmp, ignore_errors=True)
    out.append(res)
print(json.dumps(out, indent=1))
